#!/usr/bin/env python3
"""Regenerates MANIFEST.json from specs.py (claimed checks) and NOT_APPLICABLE below."""
import json, os, sys
sys.path.insert(0, os.path.dirname(os.path.abspath(__file__)))
import specs

NOT_APPLICABLE = dict(specs.NOT_APPLICABLE)
for line in open(os.path.join(os.path.dirname(os.path.abspath(__file__)), "properties.jsonl")):
    pid = json.loads(line)["id"]
    if pid not in specs.PROPS and pid not in NOT_APPLICABLE:
        NOT_APPLICABLE[pid] = "check not built yet (planned, see DESIGN.md section 4); not claimed until its quick check runs clean on the unchanged tree"

checks = []
for pid in sorted(specs.PROPS):
    sp = specs.PROPS[pid]
    checks.append({
        "property_id": pid,
        "quick_cmd": "./check %s quick" % pid,
        "thorough_cmd": "./check %s thorough" % pid,
        "evidence_file": "/verif/evidence/%s.json" % pid,
        "replay_cmd_template": "./check replay {path}",
        "engine": "symgo",
        "level_claimed": {
            "category": sp.get("level", "model_checking"),
            "text": sp["claim"],
            "design_ref": sp.get("design_ref", "DESIGN.md section 4, " + pid),
        },
        "level_note": sp["note"],
        "technique": sp["technique"],
    })
m = {
    "version": 1,
    "setup_cmd": "./setup.sh",
    "hooks": {
        "guard": "verif",
        "enable": "no source hooks: harnesses and stubs are injected through the go/packages overlay (symbolic run) and `go test -overlay` (native replay); nothing is written to /repo",
        "baseline_off_cmd": "for m in $(cat /w/out/gomods.txt); do MF=$(cd /repo/$m && . /w/out/goenv.sh && gomodflag); (cd /repo/$m && go test $MF -json -vet=off -count=1 -timeout 25m ./...); done",
        "source_commits": [],
        "add_only": True,
    },
    "engines": [{
        "name": "symgo",
        "path": "/verif/engine",
        "serves_properties": sorted(specs.PROPS),
        "kind_free_text": "symbolic executor for Go built on go/ssa (fork of x/tools go/ssa/interp): bit-vector terms for integers, symbolic-byte strings, forking by re-execution of decision prefixes, merge-mode summaries, SMT-LIB2 to a persistent z3 per worker, exact byte-domain pre-solver; counterexamples replayed natively with go test -overlay",
    }],
    "checks": checks,
    "not_applicable": [{"property_id": k, "reason": v} for k, v in sorted(NOT_APPLICABLE.items()) if k not in specs.PROPS],
    "notes": "Exit codes of ./check: 0 all obligations discharged within the stated bounds; 1 natively confirmed violation (VIOLATION line); 3 inconclusive (unsupported construct, solver unknown, fuel/unwinding, vacuity, harness no longer builds). Known findings: known_findings.json.",
}
json.dump(m, open(os.path.join(os.path.dirname(os.path.abspath(__file__)), "MANIFEST.json"), "w"), indent=1)
print("MANIFEST.json: %d checks, %d not applicable" % (len(checks), len(m["not_applicable"])))
