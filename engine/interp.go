// Copyright 2013 The Go Authors. All rights reserved.
// Use of this source code is governed by a BSD-style
// license that can be found in the LICENSE file (LICENSE.x-tools).
//
// Derived from golang.org/x/tools/go/ssa/interp (v0.48.0) interp.go.
// Changes: symbolic values and forking branches (see explore.go), lazy package
// initialisation, engine aborts that bypass target defers/recover, fuel,
// stubs/redirects/intrinsics, a cooperative goroutine/channel model.

package main

import (
	"fmt"
	"go/token"
	"go/types"
	"runtime"
	"slices"
	"strings"
	"sync"

	"golang.org/x/tools/go/ssa"
)

type continuation int

const (
	kNext continuation = iota
	kReturn
	kJump
)

type deferred struct {
	fn    value
	args  []value
	instr *ssa.Defer
	tail  *deferred
}

type frame struct {
	w                *world
	caller           *frame
	fn               *ssa.Function
	block, prevBlock *ssa.BasicBlock
	env              []value // dynamic values of SSA variables, indexed by info.index
	info             *funcInfo
	locals           []value
	defers           *deferred
	result           value
	panicking        bool
	panic            any
	phitemps         []value // temporaries for parallel phi assignment
	cur              ssa.Instruction
	resume           int // index in block.Instrs at which to resume (package initialisers only)
}

// If the target program panics, the interpreter panics with this type.
type targetPanic struct {
	v value
}

func (p targetPanic) String() string {
	return toString(p.v)
}

// rtPanic is a target run-time error raised by the engine (index out of
// range, nil dereference, division by zero, failed type assertion…).
type rtPanic string

func targetPanicMsg(s string) rtPanic { return rtPanic(s) }

// If the target program calls exit, the interpreter panics with this type.
type exitPanic int

func (fr *frame) get(key ssa.Value) value {
	switch key := key.(type) {
	case nil:
		// Hack; simplifies handling of optional attributes
		// such as ssa.Slice.{Low,High}.
		return nil
	case *ssa.Function, *ssa.Builtin:
		return key
	case *ssa.Const:
		return constValue(key)
	case *ssa.Global:
		return fr.w.global(key)
	}
	if i, ok := fr.info.index[key]; ok {
		if r := fr.env[i]; r != nil || true {
			return r
		}
	}
	panic(fmt.Sprintf("get: no value for %T: %v", key, key.Name()))
}

// runDefer runs a deferred call d.
// It always returns normally, but may set or clear fr.panic.
func (fr *frame) runDefer(d *deferred) {
	var ok bool
	defer func() {
		if !ok {
			// Deferred call created a new state of panic.
			p := recover()
			if ab, isAbort := p.(engineAbort); isAbort {
				panic(ab)
			}
			fr.panicking = true
			fr.panic = p
		}
	}()
	fr.w.call(fr, d.instr.Pos(), d.fn, d.args)
	ok = true
}

// runDefers executes fr's deferred function calls in LIFO order.
func (fr *frame) runDefers() {
	for d := fr.defers; d != nil; d = d.tail {
		fr.runDefer(d)
	}
	fr.defers = nil
	if fr.panicking {
		panic(fr.panic) // new panic, or still panicking
	}
}

// lookupMethod returns the method set for type typ.
func lookupMethod(w *world, typ types.Type, meth *types.Func) *ssa.Function {
	return w.prog.LookupMethod(typ, meth.Pkg(), meth.Name())
}

// visitInstr interprets a single ssa.Instruction within the activation
// record frame.  It returns a continuation value indicating where to
// read the next instruction from.
func visitInstr(fr *frame, instr ssa.Instruction) continuation {
	w := fr.w
	switch instr := instr.(type) {
	case *ssa.DebugRef:
		// no-op

	case *ssa.UnOp:
		fr.env[fr.info.index[instr]] = w.unop(instr, fr.get(instr.X))

	case *ssa.BinOp:
		fr.env[fr.info.index[instr]] = w.binop(instr.Op, instr.X.Type(), fr.get(instr.X), fr.get(instr.Y))

	case *ssa.Call:
		fn, args := prepareCall(fr, &instr.Call)
		fr.env[fr.info.index[instr]] = w.call(fr, instr.Pos(), fn, args)

	case *ssa.ChangeInterface:
		fr.env[fr.info.index[instr]] = fr.get(instr.X)

	case *ssa.ChangeType:
		fr.env[fr.info.index[instr]] = fr.get(instr.X) // (can't fail)

	case *ssa.Convert:
		fr.env[fr.info.index[instr]] = w.conv(instr.Type(), instr.X.Type(), fr.get(instr.X))

	case *ssa.SliceToArrayPointer:
		fr.env[fr.info.index[instr]] = sliceToArrayPointer(instr.Type(), instr.X.Type(), fr.get(instr.X))

	case *ssa.MakeInterface:
		fr.env[fr.info.index[instr]] = iface{t: instr.X.Type(), v: fr.get(instr.X)}

	case *ssa.Extract:
		fr.env[fr.info.index[instr]] = fr.get(instr.Tuple).(tuple)[instr.Index]

	case *ssa.Slice:
		fr.env[fr.info.index[instr]] = w.slice(fr.get(instr.X), fr.get(instr.Low), fr.get(instr.High), fr.get(instr.Max))

	case *ssa.Return:
		switch len(instr.Results) {
		case 0:
		case 1:
			fr.result = fr.get(instr.Results[0])
		default:
			var res []value
			for _, r := range instr.Results {
				res = append(res, fr.get(r))
			}
			fr.result = tuple(res)
		}
		fr.block = nil
		return kReturn

	case *ssa.RunDefers:
		fr.runDefers()

	case *ssa.Panic:
		panic(targetPanic{fr.get(instr.X)})

	case *ssa.Send:
		w.chanSend(fr.get(instr.Chan), fr.get(instr.X))

	case *ssa.Store:
		addr := fr.get(instr.Addr).(*value)
		if addr == nil {
			panic(targetPanicMsg("runtime error: invalid memory address or nil pointer dereference"))
		}
		if g, ok := instr.Addr.(*ssa.Global); ok {
			w.markGlobalStored(g)
		}
		w.storeLogged(mustDeref(instr.Addr.Type()), addr, fr.get(instr.Val))

	case *ssa.If:
		succ := 1
		switch c := fr.get(instr.Cond).(type) {
		case bool:
			if c {
				succ = 0
			}
		case symv:
			if w.branch(c.t) {
				succ = 0
			}
		default:
			panic(unsupported(fmt.Sprintf("If on %T", c)))
		}
		fr.prevBlock, fr.block = fr.block, fr.block.Succs[succ]
		return kJump

	case *ssa.Jump:
		fr.prevBlock, fr.block = fr.block, fr.block.Succs[0]
		return kJump

	case *ssa.Defer:
		fn, args := prepareCall(fr, &instr.Call)
		defers := &fr.defers
		if into := fr.get(instr.DeferStack); into != nil {
			defers = into.(**deferred)
		}
		*defers = &deferred{
			fn:    fn,
			args:  args,
			instr: instr,
			tail:  *defers,
		}

	case *ssa.Go:
		fn, args := prepareCall(fr, &instr.Call)
		w.spawn(instr, fn, args)

	case *ssa.MakeChan:
		n, ok := w.concInt(fr.get(instr.Size), 0, 1<<20)
		if !ok {
			panic(targetPanicMsg("makechan: size out of range"))
		}
		fr.env[fr.info.index[instr]] = w.makeChan(int(n))

	case *ssa.Alloc:
		var addr *value
		if instr.Heap {
			// new
			addr = new(value)
			fr.env[fr.info.index[instr]] = addr
		} else {
			// local
			addr = fr.env[fr.info.index[instr]].(*value)
		}
		*addr = zero(mustDeref(instr.Type()))

	case *ssa.MakeSlice:
		capv, ok := w.concInt(fr.get(instr.Cap), 0, 1<<24)
		if !ok {
			panic(targetPanicMsg("runtime error: makeslice: cap out of range"))
		}
		lenv, ok := w.concInt(fr.get(instr.Len), 0, capv)
		if !ok {
			panic(targetPanicMsg("runtime error: makeslice: len out of range"))
		}
		slice := make([]value, capv)
		tElt := instr.Type().Underlying().(*types.Slice).Elem()
		for i := range slice {
			slice[i] = zero(tElt)
		}
		fr.env[fr.info.index[instr]] = slice[:lenv]

	case *ssa.MakeMap:
		fr.env[fr.info.index[instr]] = newOmap(instr.Type().Underlying().(*types.Map).Key())

	case *ssa.Range:
		fr.env[fr.info.index[instr]] = w.rangeIter(fr.get(instr.X))

	case *ssa.Next:
		fr.env[fr.info.index[instr]] = fr.get(instr.Iter).(iter).next(w)

	case *ssa.FieldAddr:
		p := fr.get(instr.X).(*value)
		if p == nil {
			panic(targetPanicMsg("runtime error: invalid memory address or nil pointer dereference"))
		}
		fr.env[fr.info.index[instr]] = &(*p).(structure)[instr.Field]

	case *ssa.Field:
		fr.env[fr.info.index[instr]] = fr.get(instr.X).(structure)[instr.Field]

	case *ssa.IndexAddr:
		x := fr.get(instr.X)
		idx := fr.get(instr.Index)
		switch x := x.(type) {
		case []value:
			i, ok := w.concInt(idx, 0, int64(len(x))-1)
			if !ok {
				panic(targetPanicMsg(fmt.Sprintf("runtime error: index out of range with length %d", len(x))))
			}
			fr.env[fr.info.index[instr]] = &x[i]
		case *value: // *array
			if x == nil {
				panic(targetPanicMsg("runtime error: invalid memory address or nil pointer dereference"))
			}
			a := (*x).(array)
			i, ok := w.concInt(idx, 0, int64(len(a))-1)
			if !ok {
				panic(targetPanicMsg(fmt.Sprintf("runtime error: index out of range with length %d", len(a))))
			}
			fr.env[fr.info.index[instr]] = &a[i]
		default:
			panic(fmt.Sprintf("unexpected x type in IndexAddr: %T", x))
		}

	case *ssa.Index:
		fr.env[fr.info.index[instr]] = w.index(fr.get(instr.X), fr.get(instr.Index))

	case *ssa.Lookup:
		x := fr.get(instr.X)
		if isStringVal(x) {
			fr.env[fr.info.index[instr]] = w.index(x, fr.get(instr.Index))
		} else {
			fr.env[fr.info.index[instr]] = w.lookup(instr, x, fr.get(instr.Index))
		}

	case *ssa.MapUpdate:
		m := fr.get(instr.Map)
		key := fr.get(instr.Key)
		v := fr.get(instr.Value)
		switch m := m.(type) {
		case *omap:
			if m == nil {
				panic(targetPanicMsg("assignment to entry in nil map"))
			}
			w.logMap(m)
			m.insert(w, key, v)
		default:
			panic(fmt.Sprintf("illegal map type: %T", m))
		}

	case *ssa.TypeAssert:
		fr.env[fr.info.index[instr]] = typeAssert(instr, fr.get(instr.X).(iface))

	case *ssa.MakeClosure:
		var bindings []value
		for _, binding := range instr.Bindings {
			bindings = append(bindings, fr.get(binding))
		}
		fr.env[fr.info.index[instr]] = &closure{instr.Fn.(*ssa.Function), bindings}

	case *ssa.Phi:
		panic("unreachable") // phis are processed at block entry

	case *ssa.Select:
		fr.env[fr.info.index[instr]] = w.doSelect(fr, instr)

	default:
		panic(fmt.Sprintf("unexpected instruction: %T", instr))
	}
	return kNext
}

// sliceToArrayPointer converts the value x of type slice to type t_dst
// a pointer to array and returns the result.
func sliceToArrayPointer(t_dst, t_src types.Type, x value) value {
	if _, ok := t_src.Underlying().(*types.Slice); ok {
		if ptr, ok := t_dst.Underlying().(*types.Pointer); ok {
			if arr, ok := ptr.Elem().Underlying().(*types.Array); ok {
				x := x.([]value)
				if arr.Len() > int64(len(x)) {
					panic(targetPanicMsg("array length is greater than slice length"))
				}
				if x == nil {
					return zero(t_dst)
				}
				v := value(array(x[:arr.Len()]))
				return &v
			}
		}
	}
	panic(fmt.Sprintf("unsupported conversion: %s  -> %s, dynamic type %T", t_src, t_dst, x))
}

// prepareCall determines the function value and argument values for a
// function call in a Call, Go or Defer instruction, performing
// interface method lookup if needed.
func prepareCall(fr *frame, call *ssa.CallCommon) (fn value, args []value) {
	v := fr.get(call.Value)
	if call.Method == nil {
		// Function call.
		fn = v
	} else {
		// Interface method invocation.
		recv := v.(iface)
		if recv.t == nil {
			panic(targetPanicMsg("runtime error: invalid memory address or nil pointer dereference (method invoked on nil interface)"))
		}
		if f := lookupMethod(fr.w, recv.t, call.Method); f == nil {
			// Unreachable in well-typed programs.
			panic(fmt.Sprintf("method set for dynamic type %v does not contain %s", recv.t, call.Method))
		} else {
			fn = f
		}
		args = append(args, recv.v)
	}
	for _, arg := range call.Args {
		args = append(args, fr.get(arg))
	}
	return
}

// call interprets a call to a function (function, builtin or closure)
// fn with arguments args, returning its result.
func (w *world) call(caller *frame, callpos token.Pos, fn value, args []value) value {
	switch fn := fn.(type) {
	case *ssa.Function:
		if fn == nil {
			panic(targetPanicMsg("runtime error: invalid memory address or nil pointer dereference (call of nil function)"))
		}
		return w.callSSA(caller, callpos, fn, args, nil)
	case *closure:
		if fn == nil {
			panic(targetPanicMsg("runtime error: invalid memory address or nil pointer dereference (call of nil function)"))
		}
		return w.callSSA(caller, callpos, fn.Fn, args, fn.Env)
	case *ssa.Builtin:
		return w.callBuiltin(caller, fn, args)
	}
	panic(fmt.Sprintf("cannot call %T", fn))
}

func loc(fset *token.FileSet, pos token.Pos) string {
	if pos == token.NoPos {
		return ""
	}
	return " at " + fset.Position(pos).String()
}

func fnPackage(fn *ssa.Function) *ssa.Package {
	for f := fn; f != nil; f = f.Parent() {
		if f.Pkg != nil {
			return f.Pkg
		}
		if o := f.Origin(); o != nil && o.Pkg != nil {
			return o.Pkg
		}
	}
	return nil
}

// callSSA interprets a call to function fn with arguments args,
// and lexical environment env, returning its result.
func (w *world) callSSA(caller *frame, callpos token.Pos, fn *ssa.Function, args []value, env []value) value {
	m := w.meta(fn)
	if m.isInit {
		// package initialisers run lazily and only through ensureInit
		if w.initDirect != fn {
			return nil
		}
		w.initDirect = nil
	}
	if m.top {
		if w.trace {
			fmt.Fprintf(w.traceOut, "%*scall %s\n", w.depth, "", m.name)
		}
		// harness intrinsics
		if m.intrinsic != nil {
			return m.intrinsic(w, caller, fn, args)
		}
		for _, sa := range m.setargs {
			if sa.idx < len(args) {
				args = append([]value{}, args...)
				args[sa.idx] = sa.val
			}
		}
		// harness-declared redirects
		if m.redirect != nil && !w.inRedirect[m.redirect] {
			fn = m.redirect
			m = w.meta(fn)
		}
		if m.ext != nil {
			if r, ok := m.ext(w, caller, fn, args); ok {
				return r
			}
		}
		if m.summarize && w.summaryDepth == 0 {
			if r, ok := w.callSummarized(caller, callpos, fn, args); ok {
				return r
			}
		}
		if fn.Blocks == nil {
			panic(unsupported("no code for function: " + m.name))
		}
	}
	if m.pkg != nil {
		if !w.inited[m.pkg] {
			w.ensureInit(m.pkg)
		}
		if !w.funcsSeen[fn] {
			w.noteFunc(fn, m.pkg)
		}
	}

	// generic function body?
	if fn.TypeParams().Len() > 0 && len(fn.TypeArgs()) == 0 {
		panic("interp requires ssa.BuilderMode to include InstantiateGenerics to execute generics")
	}
	w.depth++
	if w.depth > 2000 {
		panic(engineAbort{kind: abFuel, msg: "call depth > 2000 in " + fn.String()})
	}
	defer func() { w.depth-- }()

	fr := &frame{
		w:      w,
		caller: caller, // for panic/recover
		fn:     fn,
	}
	fr.info = getFuncInfo(fn)
	fr.env = make([]value, fr.info.n)
	fr.block = fn.Blocks[0]
	fr.locals = make([]value, len(fn.Locals))
	for i, l := range fn.Locals {
		fr.locals[i] = zero(mustDeref(l.Type()))
		fr.env[fr.info.index[l]] = &fr.locals[i]
	}
	for i, p := range fn.Params {
		fr.env[fr.info.index[p]] = args[i]
	}
	for i, fv := range fn.FreeVars {
		fr.env[fr.info.index[fv]] = env[i]
	}
	for fr.block != nil {
		runFrame(fr)
	}
	// Destroy the locals to avoid accidental use after return.
	for i := range fn.Locals {
		fr.locals[i] = bad{}
	}
	return fr.result
}

// runFrame executes SSA instructions starting at fr.block and
// continuing until a return, a panic, or a recovered panic.
func runFrame(fr *frame) {
	defer func() {
		if fr.block == nil {
			return // normal return
		}
		p := recover()
		if isPkgInit(fr.fn) {
			if ab, ok := p.(engineAbort); !ok || (ab.kind != abStop && ab.kind != abRetry) {
				// a variable initialiser could not be executed: poison that
				// variable and resume with the next initialiser
				if fr.w.skipFailedInitialiser(fr, p) {
					return
				}
			}
		}
		if ab, ok := p.(engineAbort); ok {
			panic(ab) // engine control flow: no target defers, no target recover
		}
		if tae, ok := p.(*runtime.TypeAssertionError); ok {
			chain := ""
			for c, k := fr.caller, 0; c != nil && k < 6; c, k = c.caller, k+1 {
				chain += " <- " + c.fn.Name() + c.where()
			}
			panic(engineAbort{kind: abUnsupported, msg: "engine type assertion: " + tae.Error() + " in " + fr.fn.String() + fr.where() + chain})
		}
		if s, ok := p.(string); ok {
			// interp-internal consistency panics
			panic(engineAbort{kind: abUnsupported, msg: "engine: " + s + " in " + fr.fn.String() + fr.where()})
		}
		fr.panicking = true
		fr.panic = p
		if fr.w.trace {
			fmt.Fprintf(fr.w.traceOut, "Panicking: %T %v in %s%s\n", fr.panic, fr.panic, fr.fn, fr.where())
		}
		if fr.w.panicSite == "" {
			fr.w.panicSite = fr.fn.String() + fr.where()
		}
		fr.runDefers()
		fr.block = fr.fn.Recover
		if fr.block == nil {
			// recovered in a function without named results: return zero values
			fr.result = zeroResult(fr.fn)
		}
	}()

	w := fr.w
	for {
		w.fuel--
		if w.fuel <= 0 {
			panic(engineAbort{kind: abFuel, msg: "fuel exhausted in " + fr.fn.String()})
		}
		var nonPhis []ssa.Instruction
		if fr.resume > 0 {
			nonPhis = fr.block.Instrs[fr.resume:]
			fr.resume = 0
		} else {
			nonPhis = executePhis(fr)
		}
		for _, instr := range nonPhis {
			fr.cur = instr
			w.curFrame = fr
			if w.trace && w.traceInstr {
				if v, ok := instr.(ssa.Value); ok {
					fmt.Fprintln(w.traceOut, "\t", v.Name(), "=", instr)
				} else {
					fmt.Fprintln(w.traceOut, "\t", instr)
				}
			}
			if visitInstr(fr, instr) == kReturn {
				return
			}
			// Inv: kNext (continue) or kJump (last instr)
		}
	}
}

func zeroResult(fn *ssa.Function) value {
	res := fn.Signature.Results()
	switch res.Len() {
	case 0:
		return nil
	case 1:
		return zero(res.At(0).Type())
	}
	t := make(tuple, res.Len())
	for i := range t {
		t[i] = zero(res.At(i).Type())
	}
	return t
}

// executePhis executes the phi-nodes at the start of the current
// block and returns the non-phi instructions.
func executePhis(fr *frame) []ssa.Instruction {
	firstNonPhi := -1
	for i, instr := range fr.block.Instrs {
		if _, ok := instr.(*ssa.Phi); !ok {
			firstNonPhi = i
			break
		}
	}
	// Inv: 0 <= firstNonPhi; every block contains a non-phi.

	nonPhis := fr.block.Instrs[firstNonPhi:]
	if firstNonPhi > 0 {
		phis := fr.block.Instrs[:firstNonPhi]
		predIndex := slices.Index(fr.block.Preds, fr.prevBlock)
		fr.phitemps = fr.phitemps[:0]
		for _, phi := range phis {
			phi := phi.(*ssa.Phi)
			fr.phitemps = append(fr.phitemps, fr.get(phi.Edges[predIndex]))
		}
		for i, phi := range phis {
			fr.env[fr.info.index[phi.(*ssa.Phi)]] = fr.phitemps[i]
		}
	}
	return nonPhis
}

// doRecover implements the recover() built-in.
func doRecover(caller *frame) value {
	// recover() must be exactly one level beneath the deferred
	// function (two levels beneath the panicking function) to
	// have any effect.
	if caller != nil && !caller.panicking &&
		caller.caller != nil && caller.caller.panicking {
		caller.caller.panicking = false
		p := caller.caller.panic
		caller.caller.panic = nil
		w := caller.w
		w.panicSite = ""
		switch p := p.(type) {
		case targetPanic:
			// The target program explicitly called panic().
			return p.v
		case rtPanic:
			return iface{w.runtimeErrorString, strings.TrimPrefix(string(p), "runtime error: ")}
		case runtime.Error:
			// The interpreter encountered a runtime error.
			return iface{w.runtimeErrorString, strings.TrimPrefix(p.Error(), "runtime error: ")}
		default:
			panic(fmt.Sprintf("unexpected panic type %T in target call to recover()", p))
		}
	}
	return iface{}
}

// funcInfo numbers the SSA values of a function so that frames can keep them
// in a slice.
type funcInfo struct {
	index map[ssa.Value]int
	n     int
}

var funcInfos sync.Map // *ssa.Function -> *funcInfo

func getFuncInfo(fn *ssa.Function) *funcInfo {
	if fi, ok := funcInfos.Load(fn); ok {
		return fi.(*funcInfo)
	}
	fi := &funcInfo{index: make(map[ssa.Value]int)}
	add := func(v ssa.Value) {
		if _, ok := fi.index[v]; !ok {
			fi.index[v] = fi.n
			fi.n++
		}
	}
	for _, p := range fn.Params {
		add(p)
	}
	for _, fv := range fn.FreeVars {
		add(fv)
	}
	for _, l := range fn.Locals {
		add(l)
	}
	for _, b := range fn.Blocks {
		for _, in := range b.Instrs {
			if v, ok := in.(ssa.Value); ok {
				add(v)
			}
		}
	}
	if fn.Recover != nil {
		for _, in := range fn.Recover.Instrs {
			if v, ok := in.(ssa.Value); ok {
				add(v)
			}
		}
	}
	act, _ := funcInfos.LoadOrStore(fn, fi)
	return act.(*funcInfo)
}

// skipFailedInitialiser handles a failure inside a package initialiser: the
// global whose initialiser was being computed (the next Store to a global in
// the current block) is poisoned and execution resumes after that Store.
func (w *world) skipFailedInitialiser(fr *frame, p any) bool {
	if fr.block == nil || fr.cur == nil {
		return false
	}
	idx := -1
	for i, in := range fr.block.Instrs {
		if in == fr.cur {
			idx = i
			break
		}
	}
	if idx < 0 {
		return false
	}
	msg := fmt.Sprint(p)
	if ab, ok := p.(engineAbort); ok {
		msg = ab.msg
	}
	if tp, ok := p.(targetPanic); ok {
		msg = "panic: " + toString(tp.v)
	}
	for j := idx; j < len(fr.block.Instrs); j++ {
		st, ok := fr.block.Instrs[j].(*ssa.Store)
		if !ok {
			continue
		}
		g, ok := st.Addr.(*ssa.Global)
		if !ok {
			continue
		}
		if j == idx {
			// the store itself failed: nothing to skip
		}
		w.poisoned[g] = msg
		w.ex.mu.Lock()
		w.ex.initFailed[g.String()] = msg
		w.ex.mu.Unlock()
		if j+1 >= len(fr.block.Instrs) {
			return false
		}
		fr.resume = j + 1
		fr.panicking = false
		fr.panic = nil
		fr.defers = nil
		w.depth = 1
		return true
	}
	return false
}

// fnMeta caches what callSSA needs to know about a function.
type fnMeta struct {
	name      string
	top       bool
	isInit    bool
	intrinsic intrinsicFn
	redirect  *ssa.Function
	ext       externalFn
	summarize bool
	setargs   []setArg
	pkg       *ssa.Package
}

func (w *world) meta(fn *ssa.Function) *fnMeta {
	if m, ok := w.metas[fn]; ok {
		return m
	}
	m := &fnMeta{top: fn.Parent() == nil, isInit: isPkgInit(fn), pkg: fnPackage(fn)}
	if m.top {
		m.name = fn.String()
		if in := intrinsics[fn.Name()]; in != nil && strings.HasPrefix(fn.Name(), "verif") {
			m.intrinsic = in
		}
		for _, sa := range w.ex.setargs {
			if strings.HasPrefix(m.name, sa.prefix) {
				m.setargs = append(m.setargs, sa)
			}
		}
		m.redirect = w.ex.redirects[m.name]
		m.ext = externals[m.name]
		if m.ext == nil {
			for _, g := range genericExternals {
				if strings.HasPrefix(m.name, g.prefix) {
					m.ext = g.fn
				}
			}
		}
		m.summarize = w.ex.summarize[m.name]
	}
	w.metas[fn] = m
	return m
}
