package main

// Symbolic-aware operations layered over the concrete ones of ops_concrete.go.

import (
	"fmt"
	"go/token"
	"go/types"
	"unicode/utf8"

	"golang.org/x/tools/go/ssa"
)

func mustDeref(t types.Type) types.Type {
	if ptr, ok := t.Underlying().(*types.Pointer); ok {
		return ptr.Elem()
	}
	panic(fmt.Sprintf("%v is not a pointer", t))
}

func isStringVal(x value) bool {
	switch x.(type) {
	case string, symstr:
		return true
	}
	return false
}

// binop implements binary operators over concrete and symbolic operands.
func (w *world) binop(op token.Token, t types.Type, x, y value) value {
	switch op {
	case token.EQL:
		return w.eqnil(t, x, y)
	case token.NEQ:
		r := w.eqnil(t, x, y)
		if b, ok := r.(bool); ok {
			return !b
		}
		return mkValue(types.Bool, w.tc.Not(r.(symv).t))
	}
	if !isSym(x) && !isSym(y) {
		if _, ok := x.(mathInt); !ok {
			return concBinop(op, t, x, y)
		}
	}
	tc := w.tc
	// strings
	if isStringVal(x) {
		switch op {
		case token.ADD:
			xb, yb := strBytes(x), strBytes(y)
			r := make([]value, 0, len(xb)+len(yb))
			r = append(r, xb...)
			r = append(r, yb...)
			return mkString(r)
		case token.LSS:
			return mkValue(types.Bool, w.strLess(x, y, false))
		case token.LEQ:
			return mkValue(types.Bool, w.strLess(x, y, true))
		case token.GTR:
			return mkValue(types.Bool, w.strLess(y, x, false))
		case token.GEQ:
			return mkValue(types.Bool, w.strLess(y, x, true))
		}
		panic(unsupported(fmt.Sprintf("string binop %s", op)))
	}
	xk, ok := kindOf(x)
	if !ok {
		panic(unsupported(fmt.Sprintf("symbolic binop %s on %T, %T", op, x, y)))
	}
	if xk == types.Bool {
		// && and || are compiled to control flow; only ==/!= reach here (handled above)
		panic(unsupported(fmt.Sprintf("bool binop %s", op)))
	}
	wd, signed := kindWidth(xk)
	xt := w.termOf(x)
	if op == token.SHL || op == token.SHR {
		yk, _ := kindOf(y)
		ywd, ysigned := kindWidth(yk)
		yt := w.termOf(y)
		if ysigned {
			// negative shift count panics in Go
			if w.branch(tc.BVCmp("bvslt", yt, tc.BV(ywd, 0))) {
				panic(targetPanicMsg("negative shift amount"))
			}
		}
		if ywd > wd {
			// saturate then truncate
			yt = tc.Ite(tc.BVCmp("bvuge", yt, tc.BV(ywd, uint64(wd))), tc.BV(ywd, uint64(wd)), yt)
			yt = tc.Resize(yt, wd, false)
		} else if ywd < wd {
			yt = tc.Resize(yt, wd, false)
		}
		switch {
		case op == token.SHL:
			return mkValue(xk, tc.BVBin("bvshl", xt, yt))
		case signed:
			return mkValue(xk, tc.BVBin("bvashr", xt, yt))
		default:
			return mkValue(xk, tc.BVBin("bvlshr", xt, yt))
		}
	}
	yt := w.termOf(y)
	if yt.sort != xt.sort {
		panic(unsupported(fmt.Sprintf("binop %s operand sorts %v %v", op, xt.sort, yt.sort)))
	}
	bin := func(o string) value { return mkValue(xk, tc.BVBin(o, xt, yt)) }
	cmp := func(s, u string) value {
		if signed {
			return mkValue(types.Bool, tc.BVCmp(s, xt, yt))
		}
		return mkValue(types.Bool, tc.BVCmp(u, xt, yt))
	}
	switch op {
	case token.ADD:
		return bin("bvadd")
	case token.SUB:
		return bin("bvsub")
	case token.MUL:
		return bin("bvmul")
	case token.AND:
		return bin("bvand")
	case token.OR:
		return bin("bvor")
	case token.XOR:
		return bin("bvxor")
	case token.AND_NOT:
		return mkValue(xk, tc.BVBin("bvand", xt, tc.BVNot(yt)))
	case token.QUO, token.REM:
		if w.branch(tc.Eq(yt, tc.BV(wd, 0))) {
			panic(targetPanicMsg("runtime error: integer divide by zero"))
		}
		switch {
		case op == token.QUO && signed:
			return bin("bvsdiv")
		case op == token.QUO:
			return bin("bvudiv")
		case signed:
			return bin("bvsrem")
		default:
			return bin("bvurem")
		}
	case token.LSS:
		return cmp("bvslt", "bvult")
	case token.LEQ:
		return cmp("bvsle", "bvule")
	case token.GTR:
		return cmp("bvsgt", "bvugt")
	case token.GEQ:
		return cmp("bvsge", "bvuge")
	}
	panic(unsupported(fmt.Sprintf("symbolic binop %s", op)))
}

// strLess builds the term for x < y (or x <= y) bytewise.
func (w *world) strLess(x, y value, orEq bool) *Term {
	tc := w.tc
	xb, yb := strBytes(x), strBytes(y)
	// from the end backwards
	n := len(xb)
	if len(yb) < n {
		n = len(yb)
	}
	var tail *Term
	switch {
	case len(xb) < len(yb):
		tail = tc.tt
	case len(xb) > len(yb):
		tail = tc.ff
	default:
		tail = tc.Bool(orEq)
	}
	r := tail
	for i := n - 1; i >= 0; i-- {
		a, b := w.termOf(xb[i]), w.termOf(yb[i])
		r = tc.Ite(tc.BVCmp("bvult", a, b), tc.tt, tc.Ite(tc.Eq(a, b), r, tc.ff))
	}
	return r
}

// eqnil returns the comparison x == y using the equivalence relation
// appropriate for type t. If t is a reference type, at most one of x or y may
// be a nil value of that type.
func (w *world) eqnil(t types.Type, x, y value) value {
	switch t.Underlying().(type) {
	case *types.Map, *types.Signature, *types.Slice:
		switch x := x.(type) {
		case *omap:
			return (x != nil) == (y.(*omap) != nil)
		case *ssa.Function:
			switch y := y.(type) {
			case *ssa.Function:
				return (x != nil) == (y != nil)
			case *closure:
				return x == nil && y == nil
			}
		case *closure:
			switch y := y.(type) {
			case *ssa.Function:
				return (x != nil) == (y != nil)
			case *closure:
				return (x != nil) == (y != nil)
			}
		case []value:
			return (x != nil) == (y.([]value) != nil)
		}
		panic(fmt.Sprintf("eqnil(%s): illegal dynamic type: %T", t, x))
	}
	return w.symEquals(t, x, y)
}

func (w *world) unop(instr *ssa.UnOp, x value) value {
	if sx, ok := x.(symv); ok {
		switch instr.Op {
		case token.NOT:
			return mkValue(types.Bool, w.tc.Not(sx.t))
		case token.SUB:
			return mkValue(sx.k, w.tc.BVNeg(sx.t))
		case token.XOR:
			return mkValue(sx.k, w.tc.BVNot(sx.t))
		}
		panic(unsupported(fmt.Sprintf("symbolic unop %s", instr.Op)))
	}
	switch instr.Op {
	case token.ARROW: // receive
		return w.chanRecv(instr, x)
	case token.MUL:
		p := x.(*value)
		if p == nil {
			panic(targetPanicMsg("runtime error: invalid memory address or nil pointer dereference"))
		}
		return load(mustDeref(instr.X.Type()), p)
	case token.NOT:
		return !x.(bool)
	case token.SUB:
		switch x := x.(type) {
		case int:
			return -x
		case int8:
			return -x
		case int16:
			return -x
		case int32:
			return -x
		case int64:
			return -x
		case uint:
			return -x
		case uint8:
			return -x
		case uint16:
			return -x
		case uint32:
			return -x
		case uint64:
			return -x
		case uintptr:
			return -x
		case float32:
			return -x
		case float64:
			return -x
		case complex64:
			return -x
		case complex128:
			return -x
		}
	case token.XOR:
		switch x := x.(type) {
		case int:
			return ^x
		case int8:
			return ^x
		case int16:
			return ^x
		case int32:
			return ^x
		case int64:
			return ^x
		case uint:
			return ^x
		case uint8:
			return ^x
		case uint16:
			return ^x
		case uint32:
			return ^x
		case uint64:
			return ^x
		case uintptr:
			return ^x
		}
	}
	panic(fmt.Sprintf("invalid unary op %s %T", instr.Op, x))
}

// concInt turns an integer value into a concrete int64, forking over the
// feasible values when symbolic. lo..hi (inclusive) is the range of values that
// are meaningful to the caller; a value outside is reported by ok=false
// (one extra fork), so callers can raise the appropriate panic.
func (w *world) concInt(x value, lo, hi int64) (v int64, ok bool) {
	sx, sym := x.(symv)
	if !sym {
		v = asInt64(x)
		if u, isU := x.(uint64); isU && u > 1<<62 {
			return v, false
		}
		if u, isU := x.(uint); isU && u > 1<<62 {
			return v, false
		}
		return v, v >= lo && v <= hi
	}
	wd, signed := kindWidth(sx.k)
	tc := w.tc
	if hi < lo {
		return 0, false
	}
	n := int(hi - lo + 1)
	var stop func(i int) bool
	if n > 4096 {
		// large nominal range: enumerate upwards and stop as soon as no larger
		// value is feasible; give up after 4096 candidates
		full := n
		n = 4096
		gt := func(v int64) *Term {
			if signed {
				return tc.BVCmp("bvsgt", sx.t, tc.BV(wd, uint64(v)))
			}
			return tc.BVCmp("bvugt", sx.t, tc.BV(wd, uint64(v)))
		}
		inRange := func() *Term {
			if signed {
				return tc.And(tc.BVCmp("bvsge", sx.t, tc.BV(wd, uint64(lo))), tc.BVCmp("bvsle", sx.t, tc.BV(wd, uint64(hi))))
			}
			return tc.And(tc.BVCmp("bvuge", sx.t, tc.BV(wd, uint64(lo))), tc.BVCmp("bvule", sx.t, tc.BV(wd, uint64(hi))))
		}
		if !w.replaying() && w.feasible(tc.And(inRange(), gt(lo+int64(n)-1))) != rUnsat {
			panic(unsupported(fmt.Sprintf("concretising a symbolic integer over %d values", full)))
		}
		stop = func(i int) bool {
			if i >= n {
				return false
			}
			return w.feasible(tc.And(inRange(), gt(lo+int64(i)))) == rUnsat
		}
	}
	_ = signed
	oor := func() *Term {
		var cs []*Term
		if signed {
			cs = append(cs, tc.BVCmp("bvslt", sx.t, tc.BV(wd, uint64(lo))), tc.BVCmp("bvsgt", sx.t, tc.BV(wd, uint64(hi))))
		} else {
			if lo > 0 {
				cs = append(cs, tc.BVCmp("bvult", sx.t, tc.BV(wd, uint64(lo))))
			}
			cs = append(cs, tc.BVCmp("bvugt", sx.t, tc.BV(wd, uint64(hi))))
		}
		return tc.Or(cs...)
	}
	// option 0 is "out of range", options 1..n are the values lo..lo+n-1
	c := w.chooseLazy(n+1, func(i int) *Term {
		if i == 0 {
			return oor()
		}
		return tc.Eq(sx.t, tc.BV(wd, uint64(lo+int64(i-1))))
	}, func(i int) bool {
		if stop == nil || i == 0 {
			return false
		}
		return stop(i - 1)
	})
	if c == 0 {
		return 0, false
	}
	return lo + int64(c-1), true
}

func unusedConcIntTail(c, n int, lo int64) (int64, bool) {
	if c == n {
		return 0, false
	}
	return lo + int64(c), true
}

// index returns x[idx] for array or string x.
func (w *world) index(x, idx value) value {
	var elems []value
	switch x := x.(type) {
	case array:
		elems = x
	case string:
		if _, sym := idx.(symv); !sym {
			i := asInt64(idx)
			if i < 0 || i >= int64(len(x)) {
				panic(targetPanicMsg(fmt.Sprintf("runtime error: index out of range [%d] with length %d", i, len(x))))
			}
			return x[i]
		}
		elems = strBytes(x)
	case symstr:
		elems = x.b
	default:
		panic(fmt.Sprintf("unexpected x type in Index: %T", x))
	}
	if sx, sym := idx.(symv); sym {
		if r, ok := w.selectScalar(elems, sx); ok {
			return r
		}
	}
	i, ok := w.concInt(idx, 0, int64(len(elems))-1)
	if !ok {
		panic(targetPanicMsg(fmt.Sprintf("runtime error: index out of range with length %d", len(elems))))
	}
	return elems[i]
}

// selectScalar builds an ite-chain for elems[idx] when all elements are
// integer/bool scalars of one kind; the out-of-range case forks to a panic.
func (w *world) selectScalar(elems []value, idx symv) (value, bool) {
	if len(elems) == 0 || len(elems) > 1024 {
		return nil, false
	}
	k0, ok := kindOf(elems[0])
	if !ok {
		return nil, false
	}
	for _, e := range elems[1:] {
		k, ok := kindOf(e)
		if !ok || k != k0 {
			return nil, false
		}
	}
	tc := w.tc
	wd, signed := kindWidth(idx.k)
	n := uint64(len(elems))
	// bounds
	var oob *Term
	if n-1 >= mask(wd) && !signed {
		oob = tc.ff
	} else if signed {
		oob = tc.Or(tc.BVCmp("bvslt", idx.t, tc.BV(wd, 0)), tc.BVCmp("bvsge", idx.t, tc.BV(wd, n)))
	} else {
		oob = tc.BVCmp("bvuge", idx.t, tc.BV(wd, n))
	}
	if w.branch(oob) {
		panic(targetPanicMsg(fmt.Sprintf("runtime error: index out of range with length %d", len(elems))))
	}
	// runs of identical consecutive elements collapse into one range test
	type run struct {
		end int
		t   *Term
	}
	var runs []run
	for i, e := range elems {
		t := w.termOf(e)
		if len(runs) > 0 && runs[len(runs)-1].t == t {
			runs[len(runs)-1].end = i
			continue
		}
		runs = append(runs, run{i, t})
	}
	r := runs[len(runs)-1].t
	for i := len(runs) - 2; i >= 0; i-- {
		r = tc.Ite(tc.BVCmp("bvule", idx.t, tc.BV(wd, uint64(runs[i].end))), runs[i].t, r)
	}
	return mkValue(k0, r), true
}

// slice returns x[lo:hi:max].  Any of lo, hi and max may be nil.
func (w *world) slice(x, lo, hi, max value) value {
	var Len, Cap int
	switch x := x.(type) {
	case string:
		Len = len(x)
		Cap = Len
	case symstr:
		Len = len(x.b)
		Cap = Len
	case []value:
		Len = len(x)
		Cap = cap(x)
	case *value: // *array
		if x == nil {
			panic(targetPanicMsg("runtime error: invalid memory address or nil pointer dereference"))
		}
		a := (*x).(array)
		Len = len(a)
		Cap = cap(a)
	}
	oob := func() {
		panic(targetPanicMsg(fmt.Sprintf("runtime error: slice bounds out of range (len %d cap %d)", Len, Cap)))
	}
	m := int64(Cap)
	if max != nil {
		var ok bool
		if m, ok = w.concInt(max, 0, int64(Cap)); !ok {
			oob()
		}
	}
	h := int64(Len)
	if hi != nil {
		var ok bool
		if h, ok = w.concInt(hi, 0, m); !ok {
			oob()
		}
	}
	l := int64(0)
	if lo != nil {
		var ok bool
		if l, ok = w.concInt(lo, 0, h); !ok {
			oob()
		}
	}
	if l > h || h > m {
		oob()
	}
	switch x := x.(type) {
	case string:
		return x[l:h]
	case symstr:
		return mkString(x.b[l:h])
	case []value:
		return x[l:h:m]
	case *value: // *array
		a := (*x).(array)
		return []value(a)[l:h:m]
	}
	panic(fmt.Sprintf("slice: unexpected X type: %T", x))
}

// lookup returns x[idx] where x is a map.
func (w *world) lookup(instr *ssa.Lookup, x, idx value) value {
	switch x := x.(type) {
	case *omap:
		v, ok := x.lookup(w, idx)
		if !ok {
			v = zero(instr.X.Type().Underlying().(*types.Map).Elem())
		}
		if instr.CommaOk {
			v = tuple{v, ok}
		}
		return v
	}
	panic(fmt.Sprintf("unexpected x type in Lookup: %T", x))
}

// typeAssert checks whether dynamic type of itf is instr.AssertedType.
func typeAssert(instr *ssa.TypeAssert, itf iface) value {
	var v value
	err := ""
	if itf.t == nil {
		err = fmt.Sprintf("interface conversion: interface is nil, not %s", instr.AssertedType)
	} else if idst, ok := instr.AssertedType.Underlying().(*types.Interface); ok {
		v = itf
		err = checkInterface(idst, itf)
	} else if types.Identical(itf.t, instr.AssertedType) {
		v = itf.v // extract value
	} else {
		err = fmt.Sprintf("interface conversion: interface is %s, not %s", itf.t, instr.AssertedType)
	}
	if err != "" {
		if !instr.CommaOk {
			panic(targetPanicMsg(err))
		}
		return tuple{zero(instr.AssertedType), false}
	}
	if instr.CommaOk {
		return tuple{v, true}
	}
	return v
}

// checkInterface checks that the method set of x implements the
// interface itype. On success it returns "", on failure, an error message.
func checkInterface(itype *types.Interface, x iface) string {
	if meth, _ := types.MissingMethod(x.t, itype, true); meth != nil {
		return fmt.Sprintf("interface conversion: %v is not %v: missing method %s",
			x.t, itype, meth.Name())
	}
	return "" // ok
}

func (w *world) rangeIter(x value) iter {
	switch x := x.(type) {
	case *omap:
		it := &omapIter{m: x}
		if x != nil {
			it.end = len(x.entries)
		}
		return it
	case string, symstr:
		return &stringIter{s: x}
	}
	panic(fmt.Sprintf("cannot range over %T", x))
}

// conv converts the value x of type t_src to type t_dst.
func (w *world) conv(t_dst, t_src types.Type, x value) value {
	ut_src := t_src.Underlying()
	ut_dst := t_dst.Underlying()
	switch x := x.(type) {
	case symv:
		db, ok := ut_dst.(*types.Basic)
		if !ok {
			break
		}
		if db.Kind() == types.String {
			// string(rune)
			return w.runeToString(x)
		}
		if db.Info()&types.IsInteger != 0 {
			_, ssigned := kindWidth(x.k)
			dw, _ := kindWidth(db.Kind())
			return mkValue(db.Kind(), w.tc.Resize(x.t, dw, ssigned))
		}
		panic(unsupported(fmt.Sprintf("conversion of symbolic %v to %s", x.k, t_dst)))
	case symstr:
		switch d := ut_dst.(type) {
		case *types.Basic:
			if d.Kind() == types.String {
				return x
			}
		case *types.Slice:
			switch d.Elem().Underlying().(*types.Basic).Kind() {
			case types.Byte:
				r := make([]value, len(x.b))
				copy(r, x.b)
				return r
			case types.Rune:
				var r []value
				for i := 0; i < len(x.b); {
					rn, sz := w.decodeRune(x, i)
					r = append(r, rn)
					i += sz
				}
				return r
			}
		}
		panic(unsupported(fmt.Sprintf("conversion of symbolic string to %s", t_dst)))
	case []value:
		if sl, ok := ut_src.(*types.Slice); ok {
			if db, ok := ut_dst.(*types.Basic); ok && db.Kind() == types.String {
				switch sl.Elem().Underlying().(*types.Basic).Kind() {
				case types.Byte:
					return mkString(x)
				case types.Rune:
					var out []value
					for _, r := range x {
						out = append(out, strBytes(w.runeToStringV(r))...)
					}
					return mkString(out)
				}
			}
		}
	}
	return concConv(t_dst, t_src, x)
}

func (w *world) runeToStringV(r value) value {
	if s, ok := r.(symv); ok {
		return w.runeToString(s)
	}
	return string(rune(asInt64(r)))
}

// runeToString implements string(r) for a symbolic integer r by forking on
// the UTF-8 length class.
func (w *world) runeToString(x symv) value {
	tc := w.tc
	wd, signed := kindWidth(x.k)
	t := tc.Resize(x.t, 32, signed)
	if wd > 32 {
		// values outside int32 range are invalid runes
		back := tc.Resize(t, wd, true)
		if !w.branch(tc.Eq(back, x.t)) {
			return string(utf8.RuneError)
		}
	}
	c := func(v uint32) *Term { return tc.BV(32, uint64(v)) }
	lt := func(v uint32) *Term { return tc.BVCmp("bvult", t, c(v)) }
	b8 := func(e *Term) value { return mkValue(types.Uint8, tc.Resize(e, 8, false)) }
	shr := func(n uint32) *Term { return tc.BVBin("bvlshr", t, c(n)) }
	and := func(e *Term, m uint32) *Term { return tc.BVBin("bvand", e, c(m)) }
	or := func(e *Term, m uint32) *Term { return tc.BVBin("bvor", e, c(m)) }
	if w.branch(lt(0x80)) {
		return mkString([]value{b8(t)})
	}
	if w.branch(lt(0x800)) {
		return mkString([]value{b8(or(shr(6), 0xC0)), b8(or(and(t, 0x3F), 0x80))})
	}
	// surrogates and out of range -> RuneError
	bad := tc.Or(tc.And(tc.BVCmp("bvuge", t, c(0xD800)), lt(0xE000)), tc.BVCmp("bvugt", t, c(0x10FFFF)))
	if w.branch(bad) {
		return string(utf8.RuneError)
	}
	if w.branch(lt(0x10000)) {
		return mkString([]value{b8(or(shr(12), 0xE0)), b8(or(and(shr(6), 0x3F), 0x80)), b8(or(and(t, 0x3F), 0x80))})
	}
	return mkString([]value{b8(or(shr(18), 0xF0)), b8(or(and(shr(12), 0x3F), 0x80)), b8(or(and(shr(6), 0x3F), 0x80)), b8(or(and(t, 0x3F), 0x80))})
}

// decodeRune decodes the rune at s[i:], like utf8.DecodeRuneInString, forking
// on the length class when bytes are symbolic.
func (w *world) decodeRune(s value, i int) (value, int) {
	if cs, ok := s.(string); ok {
		r, sz := utf8.DecodeRuneInString(cs[i:])
		return r, sz
	}
	b := s.(symstr).b
	n := len(b) - i
	// fast path: the leading concrete bytes decide the result
	{
		var buf [4]byte
		k := 0
		for k < 4 && k < n {
			c, ok := b[i+k].(byte)
			if !ok {
				break
			}
			buf[k] = c
			k++
		}
		if k > 0 && (k == n || k == 4 || utf8.FullRune(buf[:k])) {
			r, sz := utf8.DecodeRune(buf[:k])
			return r, sz
		}
	}
	tc := w.tc
	bt := func(j int) *Term { return tc.Resize(w.termOf(b[i+j]), 32, false) }
	c := func(v uint32) *Term { return tc.BV(32, uint64(v)) }
	in := func(t *Term, lo, hi uint32) *Term {
		return tc.And(tc.BVCmp("bvuge", t, c(lo)), tc.BVCmp("bvule", t, c(hi)))
	}
	and := func(e *Term, m uint32) *Term { return tc.BVBin("bvand", e, c(m)) }
	shl := func(e *Term, k uint32) *Term { return tc.BVBin("bvshl", e, c(k)) }
	or := func(a, b *Term) *Term { return tc.BVBin("bvor", a, b) }
	b0 := bt(0)
	if w.branch(tc.BVCmp("bvult", b0, c(0x80))) {
		return mkValue(types.Int32, b0), 1
	}
	if n >= 2 {
		b1 := bt(1)
		if w.branch(tc.And(in(b0, 0xC2, 0xDF), in(b1, 0x80, 0xBF))) {
			return mkValue(types.Int32, or(shl(and(b0, 0x1F), 6), and(b1, 0x3F))), 2
		}
		if n >= 3 {
			b2 := bt(2)
			v3 := tc.And(in(b2, 0x80, 0xBF), tc.Or(
				tc.And(tc.Eq(b0, c(0xE0)), in(b1, 0xA0, 0xBF)),
				tc.And(in(b0, 0xE1, 0xEC), in(b1, 0x80, 0xBF)),
				tc.And(tc.Eq(b0, c(0xED)), in(b1, 0x80, 0x9F)),
				tc.And(in(b0, 0xEE, 0xEF), in(b1, 0x80, 0xBF))))
			if w.branch(v3) {
				return mkValue(types.Int32, or(or(shl(and(b0, 0x0F), 12), shl(and(b1, 0x3F), 6)), and(b2, 0x3F))), 3
			}
			if n >= 4 {
				b3 := bt(3)
				v4 := tc.And(in(b2, 0x80, 0xBF), in(b3, 0x80, 0xBF), tc.Or(
					tc.And(tc.Eq(b0, c(0xF0)), in(b1, 0x90, 0xBF)),
					tc.And(in(b0, 0xF1, 0xF3), in(b1, 0x80, 0xBF)),
					tc.And(tc.Eq(b0, c(0xF4)), in(b1, 0x80, 0x8F))))
				if w.branch(v4) {
					return mkValue(types.Int32, or(or(or(shl(and(b0, 0x07), 18), shl(and(b1, 0x3F), 12)), shl(and(b2, 0x3F), 6)), and(b3, 0x3F))), 4
				}
			}
		}
	}
	return rune(utf8.RuneError), 1
}
