package main

// A cooperative goroutine/channel model.
//
// `go f(x)` appends the call to a pending list. A goroutine runs to completion,
// without preemption, when the running code blocks on a channel receive or a
// blocking select with no ready case; *which* pending goroutine runs is an
// explored choice. Sends never block (channels are unbounded queues). This is
// exact for goroutines whose only interaction with the rest of the program is
// what they send before finishing, and is not a general scheduler.

import (
	"fmt"
	"go/types"

	"golang.org/x/tools/go/ssa"
)

type schan struct {
	buf      []value
	capacity int
	closed   bool
}

type goroutine struct {
	fn   value
	args []value
	pos  *ssa.Go
}

func (w *world) makeChan(n int) *schan { return &schan{capacity: n} }

func (w *world) spawn(instr *ssa.Go, fn value, args []value) {
	if w.summaryDepth > 0 {
		panic(unsupported("go statement inside summarised function"))
	}
	w.pending = append(w.pending, &goroutine{fn, args, instr})
}

func asChan(x value) *schan {
	switch c := x.(type) {
	case *schan:
		return c
	case chan value:
		if c == nil {
			return nil
		}
	}
	panic(unsupported(fmt.Sprintf("channel value %T", x)))
}

func (w *world) chanSend(ch, v value) {
	c := asChan(ch)
	if c == nil {
		panic(unsupported("send on nil channel (blocks forever)"))
	}
	if c.closed {
		panic(targetPanicMsg("send on closed channel"))
	}
	c.buf = append(c.buf, v)
}

func (w *world) chanClose(ch value) {
	c := asChan(ch)
	if c == nil {
		panic(targetPanicMsg("close of nil channel"))
	}
	if c.closed {
		panic(targetPanicMsg("close of closed channel"))
	}
	c.closed = true
}

// runOnePending lets the explorer pick one pending goroutine and runs it.
func (w *world) runOnePending() bool {
	if len(w.pending) == 0 {
		return false
	}
	i := w.chooseInput("sched", len(w.pending))
	g := w.pending[i]
	w.pending = append(append([]*goroutine{}, w.pending[:i]...), w.pending[i+1:]...)
	w.call(nil, g.pos.Pos(), g.fn, g.args)
	return true
}

func (w *world) chanRecv(instr *ssa.UnOp, x value) value {
	c := asChan(x)
	elemT := instr.X.Type().Underlying().(*types.Chan).Elem()
	for {
		if c != nil && len(c.buf) > 0 {
			v := c.buf[0]
			c.buf = c.buf[1:]
			if instr.CommaOk {
				return tuple{v, true}
			}
			return v
		}
		if c != nil && c.closed {
			v := zero(elemT)
			if instr.CommaOk {
				return tuple{v, false}
			}
			return v
		}
		if !w.runOnePending() {
			panic(targetPanicMsg("all goroutines are asleep - deadlock! (receive)"))
		}
	}
}

func (w *world) doSelect(fr *frame, instr *ssa.Select) value {
	for {
		var ready []int
		for i, st := range instr.States {
			c := asChan(fr.get(st.Chan))
			if c == nil {
				continue
			}
			if st.Dir == types.RecvOnly {
				if len(c.buf) > 0 || c.closed {
					ready = append(ready, i)
				}
			} else {
				ready = append(ready, i)
			}
		}
		if len(ready) == 0 {
			if !instr.Blocking {
				return w.selectResult(fr, instr, -1)
			}
			if !w.runOnePending() {
				panic(targetPanicMsg("all goroutines are asleep - deadlock! (select)"))
			}
			continue
		}
		// A blocking select with ready cases may also be reached after more
		// goroutines have progressed; that additional interleaving is explored
		// by offering "run a pending goroutine first" as one more option.
		n := len(ready)
		opts := n
		if len(w.pending) > 0 {
			opts = n + 1
		}
		k := 0
		if opts > 1 {
			k = w.chooseInput("select", opts)
		}
		if k == n {
			w.runOnePending()
			continue
		}
		return w.selectResult(fr, instr, ready[k])
	}
}

func (w *world) selectResult(fr *frame, instr *ssa.Select, chosen int) value {
	recvOk := false
	var recv value
	if chosen >= 0 {
		st := instr.States[chosen]
		c := asChan(fr.get(st.Chan))
		if st.Dir == types.RecvOnly {
			if len(c.buf) > 0 {
				recv = c.buf[0]
				c.buf = c.buf[1:]
				recvOk = true
			}
		} else {
			w.chanSend(c, fr.get(st.Send))
		}
	}
	r := tuple{chosen, recvOk}
	for i, st := range instr.States {
		if st.Dir == types.RecvOnly {
			var v value
			if i == chosen && recvOk {
				v = recv
			} else {
				v = zero(st.Chan.Type().Underlying().(*types.Chan).Elem())
			}
			r = append(r, v)
		}
	}
	return r
}
