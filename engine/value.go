// Copyright 2013 The Go Authors. All rights reserved.
// Use of this source code is governed by a BSD-style
// license that can be found in the LICENSE file (LICENSE.x-tools).
//
// Derived from golang.org/x/tools/go/ssa/interp (v0.48.0); extended with
// symbolic scalars, symbolic-byte strings and deterministic ordered maps.

package main

// Values
//
// All interpreter values are "boxed" in the empty interface, value.
// The range of possible dynamic types within value are:
//
// - bool
// - numbers (all built-in int/float/complex types are distinguished)
// - symv --- a symbolic bool or integer (BV term) tagged with its Go basic kind
// - string
// - symstr --- a string of concrete length with at least one symbolic byte
// - *omap --- maps (insertion-ordered, deterministic iteration)
// - chan value
// - []value --- slices
// - iface --- interfaces.
// - structure --- structs.  Fields are ordered and accessed by numeric indices.
// - array --- arrays.
// - *value --- pointers.  Careful: *value is a distinct type from *array etc.
// - *ssa.Function \
//   *ssa.Builtin   } --- functions.  A nil 'func' is always of type *ssa.Function.
//   *closure      /
// - tuple --- as returned by Return, Next, "value,ok" modes, etc.
// - iter --- iterators from 'range' over map or string.
// - bad --- a poison pill for locals that have gone out of scope.
// - mathInt --- a mathematical integer term (decimal model), stored where a
//   *big.Int pointer would be.
// - **deferred -- the address of a frame's defer stack for a Defer._Stack.

import (
	"bytes"
	"fmt"
	"go/types"
	"reflect"
	"unsafe"

	"golang.org/x/tools/go/ssa"
	"golang.org/x/tools/go/types/typeutil"
)

type value any

type tuple []value

type array []value

type iface struct {
	t types.Type // never an "untyped" type
	v value
}

type structure []value

// symv is a symbolic scalar: k is the Go basic kind (types.Bool, types.Int8 …),
// t a Bool or BV term of the matching width.
type symv struct {
	k types.BasicKind
	t *Term
}

// symstr is a string whose length is concrete and whose bytes are byte or
// symv{Uint8}. Treated as immutable.
type symstr struct {
	b []value
}

// mathInt is a mathematical integer (SMT Int) used by the decimal model.
type mathInt struct {
	t *Term
}

// For map, array, *array, slice, string or channel.
type iter interface {
	// next returns a Tuple (key, value, ok).
	next(w *world) tuple
}

type closure struct {
	Fn  *ssa.Function
	Env []value
}

type bad struct{}

func kindWidth(k types.BasicKind) (w int, signed bool) {
	switch k {
	case types.Int, types.Int64:
		return 64, true
	case types.Int8:
		return 8, true
	case types.Int16:
		return 16, true
	case types.Int32:
		return 32, true
	case types.Uint, types.Uint64, types.Uintptr:
		return 64, false
	case types.Uint8:
		return 8, false
	case types.Uint16:
		return 16, false
	case types.Uint32:
		return 32, false
	}
	panic(unsupported(fmt.Sprintf("kindWidth(%v)", k)))
}

// kindOf returns the basic kind of a concrete integer/bool value.
func kindOf(x value) (types.BasicKind, bool) {
	switch x := x.(type) {
	case bool:
		return types.Bool, true
	case int:
		return types.Int, true
	case int8:
		return types.Int8, true
	case int16:
		return types.Int16, true
	case int32:
		return types.Int32, true
	case int64:
		return types.Int64, true
	case uint:
		return types.Uint, true
	case uint8:
		return types.Uint8, true
	case uint16:
		return types.Uint16, true
	case uint32:
		return types.Uint32, true
	case uint64:
		return types.Uint64, true
	case uintptr:
		return types.Uintptr, true
	case symv:
		return x.k, true
	}
	return 0, false
}

// mkConcrete builds the Go value of kind k from raw bits.
func mkConcrete(k types.BasicKind, v uint64) value {
	switch k {
	case types.Bool:
		return v != 0
	case types.Int:
		return int(v)
	case types.Int8:
		return int8(v)
	case types.Int16:
		return int16(v)
	case types.Int32:
		return int32(v)
	case types.Int64:
		return int64(v)
	case types.Uint:
		return uint(v)
	case types.Uint8:
		return uint8(v)
	case types.Uint16:
		return uint16(v)
	case types.Uint32:
		return uint32(v)
	case types.Uint64:
		return uint64(v)
	case types.Uintptr:
		return uintptr(v)
	}
	panic(unsupported(fmt.Sprintf("mkConcrete(%v)", k)))
}

// termOf returns the term for an integer/bool value (concrete or symbolic).
func (w *world) termOf(x value) *Term {
	switch x := x.(type) {
	case symv:
		return x.t
	case bool:
		return w.tc.Bool(x)
	}
	k, ok := kindOf(x)
	if !ok {
		panic(unsupported(fmt.Sprintf("termOf(%T)", x)))
	}
	wd, _ := kindWidth(k)
	return w.tc.BV(wd, uint64(asInt64(x)))
}

// mkValue wraps a term of kind k, returning a concrete Go value when constant.
func mkValue(k types.BasicKind, t *Term) value {
	if t.konst {
		return mkConcrete(k, t.cv)
	}
	return symv{k, t}
}

func isSym(x value) bool {
	switch x.(type) {
	case symv, symstr:
		return true
	}
	return false
}

// strBytes returns the byte values of a string value (string or symstr).
func strBytes(x value) []value {
	switch x := x.(type) {
	case string:
		r := make([]value, len(x))
		for i := 0; i < len(x); i++ {
			r[i] = x[i]
		}
		return r
	case symstr:
		return x.b
	}
	panic(unsupported(fmt.Sprintf("strBytes(%T)", x)))
}

func strLen(x value) int {
	switch x := x.(type) {
	case string:
		return len(x)
	case symstr:
		return len(x.b)
	}
	panic(unsupported(fmt.Sprintf("strLen(%T)", x)))
}

// mkString builds a string value from bytes; returns a Go string if all are concrete.
func mkString(b []value) value {
	allc := true
	for _, e := range b {
		if _, ok := e.(byte); !ok {
			allc = false
			break
		}
	}
	if allc {
		bs := make([]byte, len(b))
		for i, e := range b {
			bs[i] = e.(byte)
		}
		return string(bs)
	}
	cp := make([]value, len(b))
	copy(cp, b)
	return symstr{cp}
}

// Hash functions and equivalence relation:

// hashString computes the FNV hash of s.
func hashString(s string) int {
	var h uint32
	for i := 0; i < len(s); i++ {
		h ^= uint32(s[i])
		h *= 16777619
	}
	return int(h)
}

var hasher = typeutil.MakeHasher()

// hashType returns a hash for t such that
// types.Identical(x, y) => hashType(x) == hashType(y).
func hashType(t types.Type) int {
	return int(hasher.Hash(t))
}

// nil-tolerant variant of types.Identical.
func sameType(x, y types.Type) bool {
	if x == nil {
		return y == nil
	}
	return y != nil && types.Identical(x, y)
}

// symEquals returns x == y per Go's equivalence relation for type t, as a
// concrete bool or a symbolic bool term wrapped in symv.
func (w *world) symEquals(t types.Type, x, y value) value {
	r := w.eqTerm(t, x, y)
	return mkValue(types.Bool, r)
}

func (w *world) eqTerm(t types.Type, x, y value) *Term {
	tc := w.tc
	switch x := x.(type) {
	case symv:
		return tc.Eq(x.t, w.termOf(y))
	case bool, int, int8, int16, int32, int64, uint, uint8, uint16, uint32, uint64, uintptr:
		if ys, ok := y.(symv); ok {
			return tc.Eq(w.termOf(x), ys.t)
		}
		return tc.Bool(x == y)
	case float32:
		return tc.Bool(x == y.(float32))
	case float64:
		return tc.Bool(x == y.(float64))
	case complex64:
		return tc.Bool(x == y.(complex64))
	case complex128:
		return tc.Bool(x == y.(complex128))
	case string:
		if ys, ok := y.(string); ok {
			return tc.Bool(x == ys)
		}
		return w.strEqTerm(x, y)
	case symstr:
		return w.strEqTerm(x, y)
	case *value:
		return tc.Bool(x == y.(*value))
	case chan value:
		return tc.Bool(x == y.(chan value))
	case mathInt:
		return tc.Eq(x.t, y.(mathInt).t)
	case structure:
		y := y.(structure)
		tStruct := t.Underlying().(*types.Struct)
		var cs []*Term
		for i, n := 0, tStruct.NumFields(); i < n; i++ {
			if f := tStruct.Field(i); f.Name() != "_" {
				cs = append(cs, w.eqTerm(f.Type(), x[i], y[i]))
			}
		}
		return tc.And(cs...)
	case array:
		y := y.(array)
		tElt := t.Underlying().(*types.Array).Elem()
		var cs []*Term
		for i, xi := range x {
			cs = append(cs, w.eqTerm(tElt, xi, y[i]))
		}
		return tc.And(cs...)
	case iface:
		y := y.(iface)
		if !sameType(x.t, y.t) {
			return tc.ff
		}
		if x.t == nil {
			return tc.tt
		}
		return w.eqTerm(x.t, x.v, y.v)
	}
	// Since map, func and slice don't support comparison, this
	// case is only reachable if one of x or y is literally nil
	// (handled in eqnil) or via interface{} values.
	panic(targetPanicMsg(fmt.Sprintf("comparing uncomparable type %s", t)))
}

func (w *world) strEqTerm(x, y value) *Term {
	if strLen(x) != strLen(y) {
		return w.tc.ff
	}
	xb, yb := strBytes(x), strBytes(y)
	cs := make([]*Term, 0, len(xb))
	for i := range xb {
		cs = append(cs, w.tc.Eq(w.termOf(xb[i]), w.termOf(yb[i])))
	}
	return w.tc.And(cs...)
}

// concreteKey returns a Go-comparable key for a fully concrete value usable as
// a map key, and false if the value has symbolic parts.
func concreteKey(x value) (any, bool) {
	switch x := x.(type) {
	case bool, int, int8, int16, int32, int64, uint, uint8, uint16, uint32, uint64, uintptr,
		float32, float64, complex64, complex128, string, *value, chan value:
		return x, true
	case symv, symstr, mathInt:
		return nil, false
	case structure:
		var sb bytes.Buffer
		sb.WriteString("S{")
		for _, e := range x {
			k, ok := concreteKey(e)
			if !ok {
				return nil, false
			}
			fmt.Fprintf(&sb, "%T:%#v;", k, k)
		}
		sb.WriteString("}")
		return sb.String(), true
	case array:
		var sb bytes.Buffer
		sb.WriteString("A[")
		for _, e := range x {
			k, ok := concreteKey(e)
			if !ok {
				return nil, false
			}
			fmt.Fprintf(&sb, "%T:%#v;", k, k)
		}
		sb.WriteString("]")
		return sb.String(), true
	case iface:
		if x.t == nil {
			return "I<nil>", true
		}
		k, ok := concreteKey(x.v)
		if !ok {
			return nil, false
		}
		return fmt.Sprintf("I<%d|%s>%T:%v", hashType(x.t), x.t.String(), k, k), true
	}
	panic(targetPanicMsg(fmt.Sprintf("unhashable type %T", x)))
}

// ---------------------------------------------------------------------------
// omap: insertion-ordered map with support for symbolic keys.

type oentry struct {
	key, val value
	deleted  bool
}

type omap struct {
	keyType types.Type
	entries []*oentry
	index   map[any]int // concrete key -> entry index
	symIdx  []int       // entries with symbolic keys
	n       int
}

func newOmap(kt types.Type) *omap {
	return &omap{keyType: kt, index: make(map[any]int)}
}

func (m *omap) len() int {
	if m == nil {
		return 0
	}
	return m.n
}

// find returns the entry for key k or nil. Symbolic comparisons fork.
func (m *omap) find(w *world, k value) *oentry {
	if m == nil {
		return nil
	}
	ck, conc := concreteKey(k)
	if conc {
		// symbolic-key entries first (in insertion order)
		for _, i := range m.symIdx {
			e := m.entries[i]
			if e.deleted {
				continue
			}
			if w.branch(w.eqTerm(m.keyType, e.key, k)) {
				return e
			}
		}
		if i, ok := m.index[ck]; ok {
			return m.entries[i]
		}
		return nil
	}
	for _, e := range m.entries {
		if e.deleted {
			continue
		}
		c := w.eqTerm(m.keyType, e.key, k)
		if c.isFalse() {
			continue
		}
		if w.branch(c) {
			return e
		}
	}
	return nil
}

func (m *omap) lookup(w *world, k value) (value, bool) {
	if e := m.find(w, k); e != nil {
		return e.val, true
	}
	return nil, false
}

func (m *omap) insert(w *world, k, v value) {
	if e := m.find(w, k); e != nil {
		e.val = v
		return
	}
	e := &oentry{key: k, val: v}
	m.entries = append(m.entries, e)
	m.n++
	if ck, ok := concreteKey(k); ok {
		m.index[ck] = len(m.entries) - 1
	} else {
		m.symIdx = append(m.symIdx, len(m.entries)-1)
	}
}

func (m *omap) delete(w *world, k value) {
	if m == nil {
		return
	}
	if e := m.find(w, k); e != nil {
		e.deleted = true
		m.n--
		if ck, ok := concreteKey(e.key); ok {
			delete(m.index, ck)
		}
	}
}

type omapIter struct {
	m   *omap
	pos int
	end int // entries present when the range started (later insertions are not visited)
}

func (it *omapIter) next(w *world) tuple {
	for it.m != nil && it.pos < it.end && it.pos < len(it.m.entries) {
		e := it.m.entries[it.pos]
		it.pos++
		if !e.deleted {
			return tuple{true, e.key, e.val}
		}
	}
	return tuple{false, nil, nil}
}

// ---------------------------------------------------------------------------

// load returns the value of type T in *addr.
func load(T types.Type, addr *value) value {
	switch T := T.Underlying().(type) {
	case *types.Struct:
		v := (*addr).(structure)
		a := make(structure, len(v))
		for i := range a {
			a[i] = load(T.Field(i).Type(), &v[i])
		}
		return a
	case *types.Array:
		v := (*addr).(array)
		a := make(array, len(v))
		for i := range a {
			a[i] = load(T.Elem(), &v[i])
		}
		return a
	default:
		return *addr
	}
}

// store stores value v of type T into *addr.
func store(T types.Type, addr *value, v value) {
	switch T := T.Underlying().(type) {
	case *types.Struct:
		lhs := (*addr).(structure)
		rhs := v.(structure)
		for i := range lhs {
			store(T.Field(i).Type(), &lhs[i], rhs[i])
		}
	case *types.Array:
		lhs := (*addr).(array)
		rhs := v.(array)
		for i := range lhs {
			store(T.Elem(), &lhs[i], rhs[i])
		}
	default:
		*addr = v
	}
}

// Prints in the style of built-in println.
func writeValue(buf *bytes.Buffer, v value) {
	switch v := v.(type) {
	case nil, bool, int, int8, int16, int32, int64, uint, uint8, uint16, uint32, uint64, uintptr, float32, float64, complex64, complex128, string:
		fmt.Fprintf(buf, "%v", v)
	case symv:
		fmt.Fprintf(buf, "<sym %v #%d>", v.k, v.t.id)
	case symstr:
		fmt.Fprintf(buf, "<symstr len=%d>", len(v.b))
	case mathInt:
		fmt.Fprintf(buf, "<mathInt #%d>", v.t.id)
	case *omap:
		buf.WriteString("map[")
		if v != nil {
			sep := ""
			for _, e := range v.entries {
				if e.deleted {
					continue
				}
				buf.WriteString(sep)
				sep = " "
				writeValue(buf, e.key)
				buf.WriteString(":")
				writeValue(buf, e.val)
			}
		}
		buf.WriteString("]")
	case chan value:
		fmt.Fprintf(buf, "%v", v) // (an address)
	case *value:
		if v == nil {
			buf.WriteString("<nil>")
		} else {
			fmt.Fprintf(buf, "%p", v)
		}
	case iface:
		fmt.Fprintf(buf, "(%s, ", v.t)
		writeValue(buf, v.v)
		buf.WriteString(")")
	case structure:
		buf.WriteString("{")
		for i, e := range v {
			if i > 0 {
				buf.WriteString(" ")
			}
			writeValue(buf, e)
		}
		buf.WriteString("}")
	case array:
		buf.WriteString("[")
		for i, e := range v {
			if i > 0 {
				buf.WriteString(" ")
			}
			writeValue(buf, e)
		}
		buf.WriteString("]")
	case []value:
		buf.WriteString("[")
		for i, e := range v {
			if i > 0 {
				buf.WriteString(" ")
			}
			writeValue(buf, e)
		}
		buf.WriteString("]")
	case *ssa.Function, *ssa.Builtin, *closure:
		fmt.Fprintf(buf, "%p", v) // (an address)
	case tuple:
		buf.WriteString("(")
		for i, e := range v {
			if i > 0 {
				buf.WriteString(", ")
			}
			writeValue(buf, e)
		}
		buf.WriteString(")")
	default:
		fmt.Fprintf(buf, "<%T>", v)
	}
}

// Implements printing of Go values in the style of built-in println.
func toString(v value) string {
	var b bytes.Buffer
	writeValue(&b, v)
	return b.String()
}

var _ = reflect.TypeOf
var _ = unsafe.Pointer(nil)

// ------------------------------------------------------------------------
// Iterators

// stringIter ranges over a (possibly symbolic) string, decoding UTF-8.
type stringIter struct {
	s value
	i int
}

func (it *stringIter) next(w *world) tuple {
	n := strLen(it.s)
	if it.i >= n {
		return tuple{false, nil, nil}
	}
	r, size := w.decodeRune(it.s, it.i)
	t := tuple{true, it.i, r}
	it.i += size
	return t
}
