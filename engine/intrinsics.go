package main

// Harness vocabulary: functions named verif* declared in the harness library
// (see /verif/harness/lib) are intercepted here.

import (
	"fmt"
	"go/types"

	"golang.org/x/tools/go/ssa"
)

type intrinsicFn func(w *world, caller *frame, fn *ssa.Function, args []value) value

var intrinsics map[string]intrinsicFn

func concString(v value, what string) string {
	s, ok := v.(string)
	if !ok {
		panic(unsupported(what + " must be a concrete string"))
	}
	return s
}

func init() {
	scalar := func(k types.BasicKind, name string) intrinsicFn {
		return func(w *world, _ *frame, _ *ssa.Function, args []value) value {
			return w.newScalar(concString(args[0], "tag"), k, name)
		}
	}
	intrinsics = map[string]intrinsicFn{
		"verifU8":   scalar(types.Uint8, "u8"),
		"verifU16":  scalar(types.Uint16, "u16"),
		"verifU32":  scalar(types.Uint32, "u32"),
		"verifU64":  scalar(types.Uint64, "u64"),
		"verifInt":  scalar(types.Int, "int"),
		"verifI8":   scalar(types.Int8, "i8"),
		"verifI16":  scalar(types.Int16, "i16"),
		"verifI32":  scalar(types.Int32, "i32"),
		"verifI64":  scalar(types.Int64, "i64"),
		"verifBool": scalar(types.Bool, "bool"),
		"verifBytes": func(w *world, _ *frame, _ *ssa.Function, args []value) value {
			n := int(asInt64(args[0]))
			return w.newBytes("b", n)
		},
		"verifString": func(w *world, _ *frame, _ *ssa.Function, args []value) value {
			n := int(asInt64(args[0]))
			return mkString(w.newBytes("s", n))
		},
		"verifBytesUpTo": func(w *world, _ *frame, _ *ssa.Function, args []value) value {
			n := int(asInt64(args[0]))
			k := w.chooseInput("choice", n+1)
			return w.newBytes("b", k)
		},
		"verifStringUpTo": func(w *world, _ *frame, _ *ssa.Function, args []value) value {
			n := int(asInt64(args[0]))
			k := w.chooseInput("choice", n+1)
			return mkString(w.newBytes("s", k))
		},
		"verifChoice": func(w *world, _ *frame, _ *ssa.Function, args []value) value {
			n := int(asInt64(args[0]))
			if n <= 0 {
				panic(engineAbort{kind: abDropped})
			}
			return w.chooseInput("choice", n)
		},
		"verifAssume": func(w *world, _ *frame, _ *ssa.Function, args []value) value {
			switch c := args[0].(type) {
			case bool:
				if !c {
					panic(engineAbort{kind: abDropped})
				}
			case symv:
				w.assume(c.t)
			}
			return nil
		},
		"verifAssert": func(w *world, _ *frame, _ *ssa.Function, args []value) value {
			w.assert(args[0], concString(args[1], "assertion id"))
			return nil
		},
		"verifReach": func(w *world, _ *frame, _ *ssa.Function, args []value) value {
			w.reachMark(concString(args[0], "reach id"))
			return nil
		},
		"verifEnd": func(w *world, _ *frame, _ *ssa.Function, args []value) value {
			panic(engineAbort{kind: abDone})
		},
		// verifConcretize forks over every feasible value of a small integer.
		"verifConcretize": func(w *world, _ *frame, _ *ssa.Function, args []value) value {
			lo, hi := asInt64(args[1]), asInt64(args[2])
			v, ok := w.concInt(args[0], lo, hi)
			if !ok {
				panic(engineAbort{kind: abDropped})
			}
			k, _ := kindOf(args[0])
			return mkConcrete(k, uint64(v))
		},
		"verifIsSymbolic": func(w *world, _ *frame, _ *ssa.Function, args []value) value {
			return isSym(args[0])
		},
		// verifIte(c, a, b int) int: value-level merge without forking.
		"verifIte": func(w *world, _ *frame, _ *ssa.Function, args []value) value {
			c, ok := args[0].(symv)
			if !ok {
				if args[0].(bool) {
					return args[1]
				}
				return args[2]
			}
			k, _ := kindOf(args[1])
			return mkValue(k, w.tc.Ite(c.t, w.termOf(args[1]), w.termOf(args[2])))
		},
		// verifAnd/verifOr/verifNot/verifImplies: boolean connectives without branching.
		"verifAnd": func(w *world, _ *frame, _ *ssa.Function, args []value) value {
			return mkValue(types.Bool, w.tc.And(w.termOf(args[0]), w.termOf(args[1])))
		},
		"verifOr": func(w *world, _ *frame, _ *ssa.Function, args []value) value {
			return mkValue(types.Bool, w.tc.Or(w.termOf(args[0]), w.termOf(args[1])))
		},
		"verifNot": func(w *world, _ *frame, _ *ssa.Function, args []value) value {
			return mkValue(types.Bool, w.tc.Not(w.termOf(args[0])))
		},
		"verifImplies": func(w *world, _ *frame, _ *ssa.Function, args []value) value {
			return mkValue(types.Bool, w.tc.Implies(w.termOf(args[0]), w.termOf(args[1])))
		},
		"verifIff": func(w *world, _ *frame, _ *ssa.Function, args []value) value {
			return mkValue(types.Bool, w.tc.Eq(w.termOf(args[0]), w.termOf(args[1])))
		},
		"verifParam": func(w *world, _ *frame, _ *ssa.Function, args []value) value {
			if v, ok := w.ex.params[concString(args[0], "param name")]; ok {
				return v
			}
			return args[1]
		},
		"verifPublish": func(w *world, _ *frame, _ *ssa.Function, args []value) value {
			w.published[concString(args[0], "publish name")] = w.termOf(args[1])
			return nil
		},
		// verifSample records a rendering of a value for the evidence file.
		"verifSample": func(w *world, _ *frame, _ *ssa.Function, args []value) value {
			w.ex.mu.Lock()
			if len(w.ex.samples) < 12 {
				w.ex.samples = append(w.ex.samples, concString(args[0], "sample"))
			}
			w.ex.mu.Unlock()
			return nil
		},
	}
}

var _ = fmt.Sprint
