package main

// Path exploration by re-execution of decision prefixes.

import (
	"crypto/sha256"
	"encoding/hex"
	"fmt"
	"go/types"
	"io"
	"math/big"
	"os"
	"runtime"
	"sort"
	"strings"
	"sync"
	"sync/atomic"
	"time"

	"golang.org/x/tools/go/ssa"
)

type abortKind int

const (
	abDropped     abortKind = iota // path ended by verifAssume(false) or infeasible
	abFuel                         // unwinding failure
	abUnsupported                  // construct outside the executor's model
	abViolation                    // assertion violated (recorded), stop this path
	abStop                         // global stop
	abDone                         // harness asked to end the path (verifEnd)
	abRetry                        // the solver failed in the middle of the path: redo the path with a fresh solver
)

type engineAbort struct {
	kind abortKind
	msg  string
}

func unsupported(msg string) engineAbort { return engineAbort{kind: abUnsupported, msg: msg} }

type inputRec struct {
	Kind string `json:"kind"` // bytes, u8, u16, u32, u64, int, i64, i32, bool, choice, mathint
	Tag  string `json:"tag,omitempty"`
	N    int    `json:"n,omitempty"`
	// model values filled for counterexamples
	Hex string `json:"hex,omitempty"`
	V   string `json:"v,omitempty"`

	terms []*Term
	k     types.BasicKind
}

type violation struct {
	Harness   string         `json:"harness"`
	ID        string         `json:"assert_id"`
	Kind      string         `json:"kind"` // assert, panic
	Msg       string         `json:"msg"`
	Inputs    []inputRec     `json:"inputs"`
	Decisions []int          `json:"decisions"`
	Site      string         `json:"site,omitempty"`
	Params    map[string]int `json:"params,omitempty"`
}

type explorer struct {
	solverRetries    int
	solverErrSamples []string
	prog             *ssa.Program
	harnessPkg       *ssa.Package
	entry            *ssa.Function
	redirects        map[string]*ssa.Function
	summarize        map[string]bool
	solverBin        []string
	timeoutMs        int
	fuel             int
	maxPaths         int
	maxViol          int
	verbose          bool
	traceFn          bool
	repoPrefix       string
	knownExcl        []knownRegion

	mu          sync.Mutex
	work        [][]int
	active      int
	cond        *sync.Cond
	stop        bool
	paths       int
	dropped     int
	completed   int
	fuelOut     []string
	unsupp      map[string]int
	violations  []violation
	obligations map[string]*oblStat
	reach       map[string]int
	reachModel  map[string][]inputRec
	funcs       map[string]string // function -> ssa hash
	initFailed  map[string]string
	forks       int
	inconcl     []string
	samples     []string
	stats       solverStats
	startT      time.Time
	sumHits     int
	sumMade     int
	sumFail     map[string]int
	ufs         map[string]bool
	replay      *violation
	params      map[string]int
	setargs     []setArg
	forkSites   map[string]int
	noPresolve  bool
	preDecided  atomic.Int64
}

type setArg struct {
	prefix   string
	idx, val int
}

type oblStat struct {
	Checked    int `json:"checked"`    // times reached on a path
	Discharged int `json:"discharged"` // unsat or concretely true
	Violated   int `json:"violated"`
	Unknown    int `json:"unknown"`
}

// world is the per-worker interpreter state.
type world struct {
	id   int
	ex   *explorer
	prog *ssa.Program
	tc   *termCtx
	sv   *solver

	runtimeErrorString types.Type
	sizes              types.Sizes

	globals      map[*ssa.Global]*value
	undo         []undoRec          // heap writes of the current path (outside initialisers), undone before the next path
	omapSaved    map[*omap]omapSnap // maps mutated by the current path, as they were before
	globalStored map[*ssa.Global]bool
	poisoned     map[*ssa.Global]string
	inited       map[*ssa.Package]bool
	initFail     map[*ssa.Package]string
	initTargets  map[*ssa.Package]map[*ssa.Global]bool
	inInit       int
	initDirect   *ssa.Function

	// per path
	decisions []int
	pos       int
	pc        []*Term
	flushed   int
	fuel      int
	depth     int
	varCount  map[string]int
	inputs    []inputRec
	panicSite string
	lost      bool // solver state lost on this path

	// goroutine model
	pending []*goroutine

	summaryDepth int
	sumCache     map[string]sumEntry
	inRedirect   map[*ssa.Function]bool

	trace      bool
	traceInstr bool
	traceOut   io.Writer

	funcsSeen  map[*ssa.Function]bool
	metas      map[*ssa.Function]*fnMeta
	classCache map[string]*Term

	published map[string]*Term
	onceDone  map[*value]bool
	sliceData map[*value][]value
	sv2       *solver
	sum       *sumState
	replayPos int
	curFrame  *frame
	doms      *domState
}

func (fr *frame) where() string {
	if fr.cur != nil && fr.cur.Pos().IsValid() {
		return " at " + fr.w.prog.Fset.Position(fr.cur.Pos()).String()
	}
	return ""
}

func newWorld(id int, ex *explorer) (*world, error) {
	sv, err := newSolver(ex.solverBin, ex.timeoutMs)
	if err != nil {
		return nil, err
	}
	if p := os.Getenv("SYMGO_SMTLOG"); p != "" {
		f, _ := os.Create(fmt.Sprintf("%s.%d.smt2", p, id))
		sv.log = f
	}
	w := &world{
		id: id, ex: ex, prog: ex.prog, tc: newTermCtx(), sv: sv,
		globals:      make(map[*ssa.Global]*value),
		globalStored: make(map[*ssa.Global]bool),
		poisoned:     make(map[*ssa.Global]string),
		inited:       make(map[*ssa.Package]bool),
		initFail:     make(map[*ssa.Package]string),
		initTargets:  make(map[*ssa.Package]map[*ssa.Global]bool),
		sumCache:     make(map[string]sumEntry),
		inRedirect:   make(map[*ssa.Function]bool),
		funcsSeen:    make(map[*ssa.Function]bool),
		metas:        make(map[*ssa.Function]*fnMeta),
		classCache:   make(map[string]*Term),
		sizes:        &types.StdSizes{WordSize: 8, MaxAlign: 8},
		traceOut:     os.Stderr,
	}
	if rp := ex.prog.ImportedPackage("runtime"); rp != nil {
		w.runtimeErrorString = rp.Type("errorString").Object().Type()
	}
	for to := range ex.redirects {
		_ = to
	}
	return w, nil
}

// ---------------------------------------------------------------------------
// globals and lazy package initialisation

func (w *world) global(g *ssa.Global) *value {
	if p, ok := w.globals[g]; ok {
		if w.inInit == 0 || true {
			w.checkPoison(g)
		}
		return p
	}
	cell := zero(mustDeref(g.Type()))
	p := &cell
	w.globals[g] = p
	if g.Pkg != nil {
		w.ensureInit(g.Pkg)
		w.checkPoison(g)
	}
	return p
}

func (w *world) checkPoison(g *ssa.Global) {
	if msg, bad := w.poisoned[g]; bad && w.inInit == 0 {
		panic(unsupported(fmt.Sprintf("read of global %s whose initialiser could not be executed (%s)", g, msg)))
	}
	if g.Pkg == nil {
		return
	}
	if msg, failed := w.initFail[g.Pkg]; failed {
		if w.initTargets[g.Pkg][g] && !w.globalStored[g] {
			panic(unsupported(fmt.Sprintf("read of global %s whose package initialiser could not be executed (%s)", g, msg)))
		}
	}
}

func (w *world) markGlobalStored(g *ssa.Global) { w.globalStored[g] = true }

func isPkgInit(fn *ssa.Function) bool {
	return fn.Pkg != nil && fn.Name() == "init" && fn.Synthetic != "" && fn.Parent() == nil && fn.Signature.Recv() == nil
}

// ensureInit runs pkg's initialiser (without its dependencies, which are
// initialised lazily when first touched).
func (w *world) ensureInit(pkg *ssa.Package) {
	if w.inited[pkg] {
		return
	}
	w.inited[pkg] = true
	initFn := pkg.Func("init")
	if initFn == nil || initFn.Blocks == nil {
		return
	}
	// collect globals with initialisers
	tg := make(map[*ssa.Global]bool)
	for _, b := range initFn.Blocks {
		for _, in := range b.Instrs {
			if st, ok := in.(*ssa.Store); ok {
				if g, ok := st.Addr.(*ssa.Global); ok && g.Pkg == pkg {
					tg[g] = true
				}
			}
		}
	}
	w.initTargets[pkg] = tg
	if skipInit[pkg.Pkg.Path()] {
		// never executed: every initialised global of the package is poison
		w.initFail[pkg] = "package initialiser is not executed by the engine"
		return
	}
	// Run with an unlimited budget and outside path bookkeeping.
	savedFuel, savedDepth := w.fuel, w.depth
	w.fuel = 1 << 40
	w.inInit++
	defer func() {
		w.inInit--
		w.fuel, w.depth = savedFuel, savedDepth
		if p := recover(); p != nil {
			msg := fmt.Sprint(p)
			if ab, ok := p.(engineAbort); ok {
				if ab.kind == abStop || ab.kind == abRetry {
					panic(ab)
				}
				msg = ab.msg
			}
			if tp, ok := p.(targetPanic); ok {
				msg = "panic: " + toString(tp.v)
			}
			if w.panicSite != "" {
				msg += " at " + w.panicSite
			}
			w.initFail[pkg] = msg
			w.ex.mu.Lock()
			w.ex.initFailed[pkg.Pkg.Path()] = msg
			w.ex.mu.Unlock()
		}
	}()
	w.initDirect = initFn
	if os.Getenv("SYMGO_TRACEINIT") != "" {
		fmt.Fprintf(os.Stderr, "init %s\n", pkg.Pkg.Path())
	}
	w.callSSA(nil, 0, initFn, nil, nil)
}

// packages whose initialisers are never run (nothing in them is needed, and
// they touch the OS or the runtime).
var skipInit = map[string]bool{
	"runtime": true, "os": false, "syscall": true, "internal/poll": true, "time": true,
	"internal/godebug": true, "internal/cpu": true, "internal/runtime/atomic": true,
	"reflect": true, "sync": true, "internal/sync": true, "os/signal": true, "net": true,
	"internal/testlog": true, "io/fs": false, "testing": true, "runtime/debug": true,
	"os/exec": true, "internal/syscall/unix": true, "internal/oserror": false,
	"log": true, "crypto/rand": true, "math/rand": true, "math/rand/v2": true,
	"flag": true,
}

func (w *world) noteFunc(fn *ssa.Function, pkg *ssa.Package) {
	if w.funcsSeen[fn] {
		return
	}
	w.funcsSeen[fn] = true
	if pkg.Pkg == nil || !strings.HasPrefix(pkg.Pkg.Path(), w.ex.repoPrefix) || w.inInit > 0 {
		return
	}
	if fn.Blocks == nil {
		return
	}
	var sb strings.Builder
	fn.WriteTo(&sb)
	h := sha256.Sum256([]byte(sb.String()))
	pos := ""
	if fn.Pos().IsValid() {
		p := w.prog.Fset.Position(fn.Pos())
		pos = fmt.Sprintf("%s:%d", p.Filename, p.Line)
	}
	w.ex.mu.Lock()
	w.ex.funcs[fn.String()] = pos + " ssa:" + hex.EncodeToString(h[:6])
	w.ex.mu.Unlock()
}

// ---------------------------------------------------------------------------
// path condition and forking

func (w *world) addPC(t *Term) {
	if t.isTrue() {
		return
	}
	if t.op == "and" {
		for _, a := range t.args {
			w.addPC(a)
		}
		return
	}
	w.pc = append(w.pc, t)
	w.domNote(t)
}

func (w *world) flushPC() {
	for ; w.flushed < len(w.pc); w.flushed++ {
		w.sv.assert(w.pc[w.flushed])
	}
}

func (w *world) resyncSolver() {
	w.sv.close()
	w.sv.failed, w.sv.lastErr, w.sv.sawError = false, "", false
	if err := w.sv.start(); err != nil {
		panic(unsupported("cannot restart the solver: " + err.Error()))
	}
	w.flushed = 0
}

// feasible asks whether pc ∧ t is satisfiable.
func (w *world) feasible(t *Term) satResult {
	if t != nil {
		if t.isFalse() {
			return rUnsat
		}
		if t.isTrue() {
			t = nil
		}
	}
	if t != nil {
		if r, ok := w.preFeasible(t); ok {
			w.ex.preDecided.Add(1)
			return r
		}
	} else {
		return rSat // the path condition is satisfiable by invariant
	}
	w.flushPC()
	t0 := time.Now()
	r := w.sv.check(t)
	w.solverGuard()
	if r == rSat {
		w.sv.endModel(t != nil)
	}
	if r == rUnknown {
		// a query z3 gave up on (timeout): do not keep working with a process
		// whose search was interrupted - start a fresh one and hand it the path
		// condition again at the next query
		w.resyncSolver()
	}
	if d := time.Since(t0); d > 2*time.Second && os.Getenv("SYMGO_SLOW") != "" {
		fmt.Fprintf(os.Stderr, "slow query %.1fs result=%v size=%d pc=%d: %.300s\n", d.Seconds(), r, t.size, len(w.pc), w.sv.expr(t))
	}
	return r
}

// solverGuard aborts the current attempt at a path when the solver reported an
// error or died: whatever it answered since cannot be trusted and its
// assertion stack is gone. runPath redoes the path from its decision prefix.
func (w *world) solverGuard() {
	if w.sv.failed {
		panic(engineAbort{kind: abRetry, msg: w.sv.lastErr})
	}
}

func (w *world) replaying() bool { return w.pos < len(w.decisions) }

func (w *world) checkStop() {
	if w.ex.stop {
		panic(engineAbort{kind: abStop})
	}
}

// branch decides a symbolic condition, forking when both outcomes are feasible.
func (w *world) branch(cond *Term) bool {
	if cond.konst {
		return cond.cv == 1
	}
	if w.summaryDepth > 0 {
		return w.sumBranch(cond)
	}
	not := w.tc.Not(cond)
	if w.replaying() {
		d := w.decisions[w.pos]
		w.pos++
		if d == 0 {
			w.addPC(cond)
			return true
		}
		w.addPC(not)
		return false
	}
	w.checkStop()
	rt := w.feasible(cond)
	var rf satResult
	if rt == rUnsat {
		rf = rSat // the path condition itself is satisfiable
	} else {
		rf = w.feasible(not)
	}
	switch {
	case rt != rUnsat && rf != rUnsat:
		// fork: continue with true, queue false
		if w.ex.forkSites != nil && w.curFrame != nil {
			site := w.curFrame.fn.String() + w.curFrame.where()
			for c, k := w.curFrame.caller, 0; c != nil && k < 3; c, k = c.caller, k+1 {
				site += " <- " + c.fn.Name() + c.where()
			}
			w.ex.mu.Lock()
			w.ex.forkSites[site]++
			w.ex.mu.Unlock()
		}
		alt := append(append([]int{}, w.decisions...), 1)
		w.ex.push(alt)
		w.decisions = append(w.decisions, 0)
		w.pos++
		w.addPC(cond)
		return true
	case rt != rUnsat:
		w.decisions = append(w.decisions, 0)
		w.pos++
		w.addPC(cond)
		return true
	default:
		w.decisions = append(w.decisions, 1)
		w.pos++
		w.addPC(not)
		return false
	}
}

// choose picks one of n options; guard(i) is the condition under which option
// i applies (nil = unconditional). All feasible options are explored.
func (w *world) choose(n int, guard func(i int) *Term) int {
	return w.chooseLazy(n, guard, nil)
}

// chooseLazy is choose with an early stop: after option i has been examined,
// stop(i) == true declares all later options infeasible.
func (w *world) chooseLazy(n int, guard func(i int) *Term, stop func(i int) bool) int {
	if w.summaryDepth > 0 {
		panic(engineAbort{kind: abUnsupported, msg: "multi-way choice inside a summarised function"})
	}
	if w.replaying() {
		d := w.decisions[w.pos]
		w.pos++
		if g := guard(d); g != nil {
			w.addPC(g)
		}
		return d
	}
	w.checkStop()
	first := -1
	for i := 0; i < n; i++ {
		g := guard(i)
		if g != nil && g.isFalse() {
			if stop != nil && stop(i) {
				break
			}
			continue
		}
		if g != nil && !g.isTrue() {
			if w.feasible(g) == rUnsat {
				if stop != nil && stop(i) {
					break
				}
				continue
			}
		}
		if first < 0 {
			first = i
		} else {
			alt := append(append([]int{}, w.decisions...), i)
			w.ex.push(alt)
		}
		if stop != nil && stop(i) {
			break
		}
	}
	if first < 0 {
		panic(engineAbort{kind: abDropped, msg: "no feasible option"})
	}
	w.decisions = append(w.decisions, first)
	w.pos++
	if g := guard(first); g != nil {
		w.addPC(g)
	}
	return first
}

// assume restricts the path to cond; drops the path when infeasible.
func (w *world) assume(cond *Term) {
	if cond.isTrue() {
		return
	}
	if cond.isFalse() {
		panic(engineAbort{kind: abDropped})
	}
	if w.summaryDepth > 0 {
		panic(engineAbort{kind: abUnsupported, msg: "assume inside a summarised function"})
	}
	if w.replaying() {
		w.pos++
		w.addPC(cond)
		return
	}
	w.checkStop()
	if w.feasible(cond) == rUnsat {
		panic(engineAbort{kind: abDropped})
	}
	w.decisions = append(w.decisions, 0)
	w.pos++
	w.addPC(cond)
}

func (ex *explorer) push(prefix []int) {
	ex.mu.Lock()
	ex.work = append(ex.work, prefix)
	ex.forks++
	ex.mu.Unlock()
	ex.cond.Signal()
}

func (ex *explorer) pop() ([]int, bool) {
	ex.mu.Lock()
	defer ex.mu.Unlock()
	for {
		if ex.stop {
			return nil, false
		}
		if n := len(ex.work); n > 0 {
			p := ex.work[n-1]
			ex.work = ex.work[:n-1]
			ex.active++
			return p, true
		}
		if ex.active == 0 {
			ex.cond.Broadcast()
			return nil, false
		}
		ex.cond.Wait()
	}
}

func (ex *explorer) done() {
	ex.mu.Lock()
	ex.active--
	if ex.active == 0 && len(ex.work) == 0 {
		ex.cond.Broadcast()
	}
	ex.mu.Unlock()
}

// ---------------------------------------------------------------------------
// symbolic inputs

func (w *world) freshName(tag, suffix string) string {
	if w.varCount == nil {
		w.varCount = make(map[string]int)
	}
	n := w.varCount[tag]
	w.varCount[tag] = n + 1
	return fmt.Sprintf("%s!%d%s", tag, n, suffix)
}

// nextReplay returns the next recorded input in engine-concrete replay mode.
func (w *world) nextReplay(kind string) *inputRec {
	r := w.ex.replay
	for w.replayPos < len(r.Inputs) {
		in := &r.Inputs[w.replayPos]
		w.replayPos++
		if in.Kind == kind {
			return in
		}
		panic(unsupported(fmt.Sprintf("replay: expected input of kind %s, file has %s", kind, in.Kind)))
	}
	panic(unsupported("replay: input file exhausted"))
}

// chooseInput is choose() for harness-visible choices, recorded as inputs.
func (w *world) chooseInput(kind string, n int) int {
	if w.ex.replay != nil {
		in := w.nextReplay(kind)
		var k int
		fmt.Sscan(in.V, &k)
		return k
	}
	k := w.choose(n, func(int) *Term { return nil })
	w.inputs = append(w.inputs, inputRec{Kind: kind, N: n, V: fmt.Sprint(k)})
	return k
}

func (w *world) newScalar(tag string, k types.BasicKind, kindName string) value {
	if w.ex.replay != nil {
		in := w.nextReplay(kindName)
		if k == types.Bool {
			return in.V == "true"
		}
		bi, _ := new(big.Int).SetString(in.V, 10)
		if bi == nil {
			bi = new(big.Int)
		}
		wd, _ := kindWidth(k)
		m := new(big.Int).Lsh(big.NewInt(1), uint(wd))
		bi.Mod(bi, m)
		return mkConcrete(k, bi.Uint64())
	}
	var t *Term
	if k == types.Bool {
		t = w.tc.Var(w.freshName(tag, "!b"), boolSort)
	} else {
		wd, _ := kindWidth(k)
		t = w.tc.Var(w.freshName(tag, fmt.Sprintf("!bv%d", wd)), bvSort(wd))
	}
	w.inputs = append(w.inputs, inputRec{Kind: kindName, Tag: tag, terms: []*Term{t}, k: k})
	return symv{k, t}
}

func (w *world) newBytes(tag string, n int) []value {
	if w.ex.replay != nil {
		in := w.nextReplay("bytes")
		bs, _ := hex.DecodeString(in.Hex)
		r := make([]value, n)
		for i := range r {
			if i < len(bs) {
				r[i] = bs[i]
			} else {
				r[i] = byte(0)
			}
		}
		return r
	}
	base := w.freshName(tag, "")
	r := make([]value, n)
	ts := make([]*Term, n)
	for i := range r {
		t := w.tc.Var(fmt.Sprintf("%s!%d!bv8", base, i), bvSort(8))
		ts[i] = t
		r[i] = symv{types.Uint8, t}
	}
	w.inputs = append(w.inputs, inputRec{Kind: "bytes", Tag: tag, N: n, terms: ts, k: types.Uint8})
	return r
}

func (w *world) inputVars() []*Term {
	var vs []*Term
	for _, in := range w.inputs {
		vs = append(vs, in.terms...)
	}
	return vs
}

// modelInputs renders the inputs of the current path under model m.
func (w *world) modelInputs(m map[string]*Term) []inputRec {
	out := make([]inputRec, len(w.inputs))
	for i, in := range w.inputs {
		r := inputRec{Kind: in.Kind, Tag: in.Tag, N: in.N, V: in.V}
		switch in.Kind {
		case "bytes":
			bs := make([]byte, len(in.terms))
			for j, t := range in.terms {
				if c := m[t.name]; c != nil {
					bs[j] = byte(c.cv)
				}
			}
			r.Hex = hex.EncodeToString(bs)
		case "choice", "sched", "select":
			// V already set
		case "mathint":
			if c := m[in.terms[0].name]; c != nil && c.iv != nil {
				r.V = c.iv.String()
			} else {
				r.V = "0"
			}
		default:
			t := in.terms[0]
			c := m[t.name]
			var bits uint64
			if c != nil {
				bits = c.cv
			}
			if in.k == types.Bool {
				r.V = fmt.Sprint(bits != 0)
			} else {
				wd, signed := kindWidth(in.k)
				if signed {
					r.V = fmt.Sprint(signExt(bits, wd))
				} else {
					r.V = fmt.Sprint(bits)
				}
			}
		}
		out[i] = r
	}
	return out
}

// ---------------------------------------------------------------------------
// assertions

func (w *world) recordObl(id string, f func(o *oblStat)) {
	w.ex.mu.Lock()
	o := w.ex.obligations[id]
	if o == nil {
		o = &oblStat{}
		w.ex.obligations[id] = o
	}
	f(o)
	w.ex.mu.Unlock()
}

func (w *world) reportViolation(kind, id, msg string, extra *Term) (reported bool) {
	// obtain a model of pc ∧ extra
	w.flushPC()
	var m map[string]*Term
	r := w.sv.check(extra)
	w.solverGuard()
	if r == rUnknown {
		w.resyncSolver()
		w.flushPC()
		w.sv.setTimeout(5 * w.sv.timeout)
		r = w.sv.check(extra)
		w.sv.setTimeout(w.sv.timeout)
		w.solverGuard()
	}
	if r == rSat {
		m = w.sv.model(w.tc, w.inputVars())
		w.solverGuard()
		w.sv.endModel(extra != nil)
	} else if r == rUnsat {
		// the solver refutes what a cheaper decision procedure (or an earlier
		// "unknown", which keeps both branches) let through: this path, or the
		// violating part of it, does not exist
		return false
	} else {
		// no model: without concrete inputs there is nothing to replay and
		// nothing to report as a violation
		w.ex.mu.Lock()
		w.ex.inconcl = append(w.ex.inconcl, kind+" "+id+": no model for the violating path ("+r.String()+")")
		w.ex.mu.Unlock()
		return false
	}
	v := violation{
		Harness: w.ex.entry.Name(), ID: id, Kind: kind, Msg: msg,
		Inputs: w.modelInputs(m), Decisions: append([]int{}, w.decisions[:w.pos]...),
		Site: w.panicSite, Params: w.ex.params,
	}
	w.ex.mu.Lock()
	w.ex.violations = append(w.ex.violations, v)
	if len(w.ex.violations) >= w.ex.maxViol {
		w.ex.stop = true
		w.ex.cond.Broadcast()
	}
	w.ex.mu.Unlock()
	return true
}

func (w *world) assert(condv value, id string) {
	var cond *Term
	switch c := condv.(type) {
	case bool:
		cond = w.tc.Bool(c)
	case symv:
		cond = c.t
	default:
		panic(unsupported(fmt.Sprintf("verifAssert on %T", condv)))
	}
	if w.summaryDepth > 0 {
		panic(unsupported("assert inside summarised function"))
	}
	if cond.isTrue() {
		w.recordObl(id, func(o *oblStat) { o.Checked++; o.Discharged++ })
		return
	}
	neg := w.tc.Not(cond)
	// Known-finding regions are excluded from the violation query; the path then
	// continues outside the region only (inside it this assertion is already a
	// recorded finding, and later assertions on those inputs are moot).
	excl := w.tc.tt
	for _, kr := range w.ex.knownExcl {
		if kr.assertID == id {
			if ex := kr.exclusion(w); ex != nil {
				excl = w.tc.And(excl, ex)
			}
		}
	}
	q := w.tc.And(neg, excl)
	if w.replaying() {
		// deterministic re-execution: the outcome was decided before
		w.pos++
		w.addPC(excl)
		w.addPC(cond)
		return
	}
	w.checkStop()
	if !excl.isTrue() {
		if w.feasible(excl) == rUnsat {
			// the whole path lies inside a known region
			w.recordObl(id, func(o *oblStat) { o.Checked++; o.Discharged++ })
			panic(engineAbort{kind: abDropped})
		}
	}
	r := w.feasible(q)
	if r == rUnknown {
		// an obligation the solver gave up on within the query timeout: ask
		// again with five times the budget before calling it inconclusive
		w.sv.setTimeout(5 * w.sv.timeout)
		r = w.feasible(q)
		w.sv.setTimeout(w.sv.timeout)
	}
	switch r {
	case rUnsat:
		w.recordObl(id, func(o *oblStat) { o.Checked++; o.Discharged++ })
		w.decisions = append(w.decisions, 0)
		w.pos++
		w.addPC(excl)
		w.addPC(cond)
	case rSat:
		if w.reportViolation("assert", id, "assertion "+id+" can be false", q) {
			w.recordObl(id, func(o *oblStat) { o.Checked++; o.Violated++ })
			panic(engineAbort{kind: abViolation})
		}
		// refuted (or no model, recorded as inconclusive): go on as if discharged
		w.recordObl(id, func(o *oblStat) { o.Checked++; o.Discharged++ })
		w.decisions = append(w.decisions, 0)
		w.pos++
		w.addPC(excl)
		w.addPC(cond)
	default:
		w.recordObl(id, func(o *oblStat) { o.Checked++; o.Unknown++ })
		w.ex.mu.Lock()
		w.ex.inconcl = append(w.ex.inconcl, "assertion "+id+": solver unknown")
		w.ex.mu.Unlock()
		w.decisions = append(w.decisions, 0)
		w.pos++
		w.addPC(excl)
		w.addPC(cond)
	}
}

func (w *world) reachMark(id string) {
	if w.summaryDepth > 0 {
		return
	}
	w.ex.mu.Lock()
	n := w.ex.reach[id]
	w.ex.mu.Unlock()
	if n > 0 {
		w.ex.mu.Lock()
		w.ex.reach[id]++
		w.ex.mu.Unlock()
		return
	}
	// first time: demand a genuine model of the path condition
	w.flushPC()
	r := w.sv.check(nil)
	w.solverGuard()
	if r != rSat {
		return
	}
	m := w.sv.model(w.tc, w.inputVars())
	w.solverGuard()
	ins := w.modelInputs(m)
	w.ex.mu.Lock()
	w.ex.reach[id]++
	if _, ok := w.ex.reachModel[id]; !ok {
		w.ex.reachModel[id] = ins
	}
	w.ex.mu.Unlock()
}

// ---------------------------------------------------------------------------
// running paths

// Heap isolation between paths. Package-level state of the code under test
// (caches, interning tables, counters) lives in the world and outlives a path;
// what one path wrote - possibly values that depend on its symbolic inputs -
// must not be seen by the next. Every store, copy, atomic update and map
// mutation performed outside a package initialiser is journalled and rolled
// back before the next path starts. Writes of (lazily run) initialisers stay.
type undoRec struct {
	addr *value
	old  value
}

type omapSnap struct {
	entries []oentry
	index   map[any]int
	symIdx  []int
	n       int
}

func (w *world) logWrite(addr *value) {
	if w.inInit == 0 {
		w.undo = append(w.undo, undoRec{addr, *addr})
	}
}

func (w *world) logMap(m *omap) {
	if w.inInit != 0 || m == nil {
		return
	}
	if _, ok := w.omapSaved[m]; ok {
		return
	}
	sn := omapSnap{n: m.n, symIdx: append([]int(nil), m.symIdx...), index: make(map[any]int, len(m.index))}
	sn.entries = make([]oentry, len(m.entries))
	for i, e := range m.entries {
		sn.entries[i] = *e
	}
	for k, v := range m.index {
		sn.index[k] = v
	}
	if w.omapSaved == nil {
		w.omapSaved = make(map[*omap]omapSnap)
	}
	w.omapSaved[m] = sn
}

func (w *world) rollback() {
	for i := len(w.undo) - 1; i >= 0; i-- {
		*w.undo[i].addr = w.undo[i].old
		w.undo[i] = undoRec{}
	}
	w.undo = w.undo[:0]
	for m, sn := range w.omapSaved {
		m.entries = make([]*oentry, len(sn.entries))
		for i := range sn.entries {
			e := sn.entries[i]
			m.entries[i] = &e
		}
		m.index, m.symIdx, m.n = sn.index, sn.symIdx, sn.n
	}
	w.omapSaved = nil
}

// storeLogged is store with journalling of every overwritten cell.
func (w *world) storeLogged(T types.Type, addr *value, v value) {
	if w.inInit != 0 {
		store(T, addr, v)
		return
	}
	switch T := T.Underlying().(type) {
	case *types.Struct:
		lhs := (*addr).(structure)
		rhs := v.(structure)
		for i := range lhs {
			w.storeLogged(T.Field(i).Type(), &lhs[i], rhs[i])
		}
	case *types.Array:
		lhs := (*addr).(array)
		rhs := v.(array)
		for i := range lhs {
			w.storeLogged(T.Elem(), &lhs[i], rhs[i])
		}
	default:
		w.undo = append(w.undo, undoRec{addr, *addr})
		*addr = v
	}
}

func (w *world) resetPath(prefix []int) {
	w.rollback()
	w.decisions = prefix
	w.pos = 0
	w.pc = w.pc[:0]
	w.flushed = 0
	w.fuel = w.ex.fuel
	w.depth = 0
	w.varCount = nil
	w.inputs = nil
	w.panicSite = ""
	w.lost = false
	w.pending = nil
	w.summaryDepth = 0
	w.published = make(map[string]*Term)
	w.onceDone = make(map[*value]bool)
	w.sliceData = make(map[*value][]value)
	w.replayPos = 0
	w.doms = newDomState()
	w.sv.reset()
}

func (w *world) runPath(prefix []int) {
	base := w.sv.timeout
	for attempt := 0; ; attempt++ {
		redo := w.runPathOnce(prefix)
		if redo == nil {
			if attempt > 0 {
				// back to the normal per-query timeout
				w.sv.close()
				w.sv.timeout = base
				w.sv.start()
			}
			return
		}
		// z3 applies its timeout to push/assert as well ("push canceled"), which
		// on a loaded machine makes a healthy path fail: redo it with a fresh
		// process and three times the timeout.
		msg := w.sv.lastErr
		w.sv.close()
		w.sv.failed, w.sv.lastErr, w.sv.sawError = false, "", false
		w.sv.timeout *= 3
		if attempt >= 4 {
			w.sv.timeout = base
		}
		if err := w.sv.start(); err != nil || attempt >= 4 {
			w.ex.mu.Lock()
			w.ex.paths++
			w.ex.unsupp["solver failed repeatedly on one path: "+msg]++
			w.ex.mu.Unlock()
			return
		}
		w.ex.mu.Lock()
		w.ex.solverRetries++
		if len(w.ex.solverErrSamples) < 3 {
			w.ex.solverErrSamples = append(w.ex.solverErrSamples, msg)
		}
		w.ex.mu.Unlock()
		prefix = redo
	}
}

// runPathOnce runs one attempt; a non-nil result is the decision prefix from
// which the path has to be redone after a solver failure (the decisions taken
// so far were made on sound answers; alternatives already queued stay queued).
func (w *world) runPathOnce(prefix []int) (redo []int) {
	w.resetPath(prefix)
	ex := w.ex
	defer func() {
		p := recover()
		if ab, ok := p.(engineAbort); ok && ab.kind == abRetry {
			redo = append([]int{}, w.decisions...)
			if redo == nil {
				redo = []int{}
			}
			return
		}
		ex.mu.Lock()
		ex.paths++
		ex.mu.Unlock()
		if p == nil {
			ex.mu.Lock()
			ex.completed++
			ex.mu.Unlock()
			return
		}
		switch p := p.(type) {
		case engineAbort:
			ex.mu.Lock()
			switch p.kind {
			case abDropped:
				ex.dropped++
			case abDone:
				ex.completed++
			case abFuel:
				ex.fuelOut = append(ex.fuelOut, p.msg)
			case abUnsupported:
				ex.unsupp[p.msg]++
			case abViolation, abStop:
			}
			ex.mu.Unlock()
		case targetPanic:
			if w.reportViolation("panic", "no-panic", "panic: "+toString(p.v), nil) {
				w.recordObl("no-panic", func(o *oblStat) { o.Checked++; o.Violated++ })
			}
		case rtPanic:
			if w.reportViolation("panic", "no-panic", "panic: "+string(p), nil) {
				w.recordObl("no-panic", func(o *oblStat) { o.Checked++; o.Violated++ })
			}
		case runtime.Error:
			if w.reportViolation("panic", "no-panic", "panic: "+p.Error(), nil) {
				w.recordObl("no-panic", func(o *oblStat) { o.Checked++; o.Violated++ })
			}
		default:
			ex.mu.Lock()
			ex.unsupp[fmt.Sprintf("engine panic: %v", p)]++
			ex.mu.Unlock()
		}
	}()
	w.ensureInit(ex.harnessPkg)
	w.callSSA(nil, 0, ex.entry, nil, nil)
	w.recordObl("no-panic", func(o *oblStat) { o.Checked++; o.Discharged++ })
	return nil
}

func (ex *explorer) run(workers int) error {
	ex.cond = sync.NewCond(&ex.mu)
	ex.work = [][]int{{}}
	ex.startT = time.Now()
	var wg sync.WaitGroup
	errs := make(chan error, workers)
	for i := 0; i < workers; i++ {
		wg.Add(1)
		go func(id int) {
			defer wg.Done()
			w, err := newWorld(id, ex)
			if err != nil {
				errs <- err
				return
			}
			w.trace = ex.traceFn
			defer func() {
				ex.mu.Lock()
				ex.stats.queries += w.sv.stats.queries
				ex.stats.sat += w.sv.stats.sat
				ex.stats.unsat += w.sv.stats.unsat
				ex.stats.unknown += w.sv.stats.unknown
				ex.stats.errors += w.sv.stats.errors
				ex.stats.time += w.sv.stats.time
				ex.mu.Unlock()
				w.sv.close()
			}()
			for {
				p, ok := ex.pop()
				if !ok {
					return
				}
				w.runPath(p)
				ex.done()
				ex.mu.Lock()
				if ex.maxPaths > 0 && ex.paths >= ex.maxPaths && !ex.stop {
					ex.stop = true
					ex.inconcl = append(ex.inconcl, fmt.Sprintf("path budget %d exhausted", ex.maxPaths))
					ex.cond.Broadcast()
				}
				if ex.verbose && ex.paths%500 == 0 {
					fmt.Fprintf(os.Stderr, "[%s] paths=%d queue=%d forks=%d viol=%d %.0fs\n", ex.entry.Name(), ex.paths, len(ex.work), ex.forks, len(ex.violations), time.Since(ex.startT).Seconds())
				}
				ex.mu.Unlock()
			}
		}(i)
	}
	wg.Wait()
	select {
	case err := <-errs:
		return err
	default:
	}
	return nil
}

func sortedKeys[V any](m map[string]V) []string {
	ks := make([]string, 0, len(m))
	for k := range m {
		ks = append(ks, k)
	}
	sort.Strings(ks)
	return ks
}
