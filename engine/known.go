package main

// Known-finding regions: a listed finding contributes an exclusion predicate to
// the violation query of its assertion, so that only violations outside the
// listed region are reported.

import (
	"encoding/json"
	"os"
)

type knownRegion struct {
	assertID string
	spec     knownSpec
}

type knownSpec struct {
	Property string `json:"property"`
	Harness  string `json:"harness"`
	AssertID string `json:"assert_id"`
	// Region predicates are evaluated over harness-published named terms
	// (verifPublish) — see exclusion().
	ExcludeWhen []string `json:"exclude_when"`
}

func loadKnown(path string) ([]knownRegion, error) {
	b, err := os.ReadFile(path)
	if err != nil {
		return nil, err
	}
	var f struct {
		Findings []knownSpec `json:"findings"`
	}
	if err := json.Unmarshal(b, &f); err != nil {
		return nil, err
	}
	var out []knownRegion
	for _, s := range f.Findings {
		if len(s.ExcludeWhen) == 0 {
			continue
		}
		out = append(out, knownRegion{assertID: s.AssertID, spec: s})
	}
	return out, nil
}

// exclusion returns the term "inputs are outside the known region", built from
// boolean terms the harness published under the names in ExcludeWhen: the
// region is the disjunction of the published predicates.
func (k knownRegion) exclusion(w *world) *Term {
	if k.spec.Harness != "" && k.spec.Harness != w.ex.entry.Name() {
		return nil
	}
	var in []*Term
	for _, name := range k.spec.ExcludeWhen {
		t, ok := w.published[name]
		if !ok {
			// the harness has not published the predicate on this path: cannot exclude
			return nil
		}
		in = append(in, t)
	}
	return w.tc.Not(w.tc.Or(in...))
}
