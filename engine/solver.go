package main

// One persistent SMT solver process per worker, spoken to in SMT-LIB2 text.

import (
	"bufio"
	"fmt"
	"io"
	"math/big"
	"os"
	"os/exec"
	"strings"
	"time"
)

type satResult int

const (
	rUnsat satResult = iota
	rSat
	rUnknown
)

func (r satResult) String() string { return [...]string{"unsat", "sat", "unknown"}[r] }

type solverStats struct {
	queries, sat, unsat, unknown int
	errors                       int
	time                         time.Duration
}

type solver struct {
	cmd     *exec.Cmd
	in      io.WriteCloser
	out     *bufio.Reader
	bin     []string
	timeout int // ms per query

	defined  map[int]bool    // term ids with a define-fun in the current scope
	declared map[string]bool // variables / UFs declared in current scope
	declVars []*Term         // declared variables (in order) for model extraction
	stats    solverStats
	isZ3     bool
	override int      // per-query timeout override (ms), 0 = none
	recent   []string // last flushed chunks (diagnostics, SYMGO_SMTFAIL)
	sawError bool
	failed   bool   // an error line or a dead process since the last clearFailed: the current path must be redone
	lastErr  string // first error text seen (diagnostics)
	inPath   bool
	log      io.Writer // optional transcript
	buf      strings.Builder
}

func newSolver(bin []string, timeoutMs int) (*solver, error) {
	s := &solver{bin: bin, timeout: timeoutMs}
	if err := s.start(); err != nil {
		return nil, err
	}
	return s, nil
}

func (s *solver) start() error {
	s.cmd = exec.Command(s.bin[0], s.bin[1:]...)
	in, err := s.cmd.StdinPipe()
	if err != nil {
		return err
	}
	out, err := s.cmd.StdoutPipe()
	if err != nil {
		return err
	}
	s.cmd.Stderr = nil
	if err := s.cmd.Start(); err != nil {
		return err
	}
	s.in = in
	s.out = bufio.NewReaderSize(out, 1<<16)
	s.buf.Reset() // commands queued for the previous process (a trailing pop) are not for this one
	s.resetState()
	s.preamble()
	return nil
}

func (s *solver) preamble() {
	s.send("(set-option :print-success false)")
	if strings.Contains(s.bin[0], "z3") {
		s.send("(set-option :global-decls true)")
		// no global timeout: z3 4.8.12 applies it to push/assert as well and
		// answers a slow push with (error "push canceled"), after which its
		// scope stack no longer matches ours. The timeout is set around each
		// check-sat instead.
		s.isZ3 = true
	} else {
		s.send("(set-option :global-declarations true)")
		s.send("(set-logic ALL)")
	}
}

// setTimeout overrides the per-query timeout until it is called again with
// the regular value (z3 only).
func (s *solver) setTimeout(ms int) {
	if ms == s.timeout {
		s.override = 0
	} else {
		s.override = ms
	}
}

func (s *solver) resetState() {
	s.inPath = false
	s.defined = make(map[int]bool)
	s.declared = make(map[string]bool)
	s.declVars = nil
}

func (s *solver) close() {
	if s.cmd != nil {
		s.in.Close()
		s.cmd.Process.Kill()
		s.cmd.Wait()
		s.cmd = nil
	}
}

func (s *solver) send(line string) {
	s.buf.WriteString(line)
	s.buf.WriteByte('\n')
}

func (s *solver) flush() {
	if s.buf.Len() == 0 {
		return
	}
	if os.Getenv("SYMGO_SMTFAIL") != "" {
		s.recent = append(s.recent, s.buf.String())
		if len(s.recent) > 400 {
			s.recent = s.recent[len(s.recent)-400:]
		}
	}
	if s.log != nil {
		io.WriteString(s.log, s.buf.String())
	}
	io.WriteString(s.in, s.buf.String())
	s.buf.Reset()
}

// reset starts a new path: assertions of the previous path are popped, while
// declarations and definitions (global) stay. The process is restarted when
// it has accumulated many definitions.
func (s *solver) reset() {
	if s.inPath {
		s.send("(pop 1)")
		s.inPath = false
	}
	if len(s.defined) > 150000 {
		s.flush()
		s.close()
		s.start()
	}
}

// beginPath opens the assertion scope of a path (lazily, on first use).
func (s *solver) beginPath() {
	if !s.inPath {
		s.send("(push 1)")
		s.inPath = true
	}
}

func smtName(n string) string { return "|" + n + "|" }

// ref returns the SMT text referring to t, emitting definitions as needed.
func (s *solver) ref(t *Term) string {
	if t.konst {
		return constString(t)
	}
	if t.op == "var" {
		if !s.declared[t.name] {
			s.declared[t.name] = true
			s.declVars = append(s.declVars, t)
			s.send(fmt.Sprintf("(declare-const %s %s)", smtName(t.name), t.sort))
		}
		return smtName(t.name)
	}
	if t.size <= 6 {
		return s.expr(t)
	}
	nm := fmt.Sprintf("t!%d", t.id)
	if !s.defined[t.id] {
		e := s.expr(t)
		s.defined[t.id] = true
		s.send(fmt.Sprintf("(define-fun %s () %s %s)", nm, t.sort, e))
	}
	return nm
}

func (s *solver) expr(t *Term) string {
	if t.konst || t.op == "var" {
		return s.ref(t)
	}
	var sb strings.Builder
	op := t.op
	if strings.HasPrefix(op, "uf:") {
		fn := op[3:]
		if !s.declared["uf:"+fn] {
			s.declared["uf:"+fn] = true
			var as []string
			for _, a := range t.args {
				as = append(as, a.sort.String())
			}
			s.send(fmt.Sprintf("(declare-fun %s (%s) %s)", smtName(fn), strings.Join(as, " "), t.sort))
		}
		op = smtName(fn)
	}
	args := make([]string, len(t.args))
	for i, a := range t.args {
		args[i] = s.ref(a)
	}
	sb.WriteByte('(')
	sb.WriteString(op)
	for _, a := range args {
		sb.WriteByte(' ')
		sb.WriteString(a)
	}
	sb.WriteByte(')')
	return sb.String()
}

// assert adds t permanently (until reset).
func (s *solver) assert(t *Term) {
	s.beginPath()
	r := s.ref(t)
	s.send("(assert " + r + ")")
}

func (s *solver) readLine() (string, error) {
	line, err := s.out.ReadString('\n')
	return strings.TrimSpace(line), err
}

// check runs check-sat under the extra assumption (may be nil), inside push/pop.
func (s *solver) check(extra *Term) satResult {
	start := time.Now()
	s.stats.queries++
	s.beginPath()
	if extra != nil {
		r := s.ref(extra)
		s.send("(push 1)")
		s.send("(assert " + r + ")")
	}
	if s.isZ3 {
		t := s.timeout
		if s.override > 0 {
			t = s.override
		}
		s.send(fmt.Sprintf("(set-option :timeout %d)", t))
		s.send("(check-sat)")
		s.send("(set-option :timeout 4294967295)")
	} else {
		s.send("(check-sat)")
	}
	s.flush()
	res := rUnknown
	for {
		line, err := s.readLine()
		if err != nil {
			s.sawError = true
			s.failed = true
			if s.lastErr == "" {
				s.lastErr = "solver process ended: " + err.Error()
			}
			s.stats.errors++
			// solver died: restart; the caller's path scope is lost, so report unknown.
			s.close()
			s.start()
			s.stats.unknown++
			s.stats.time += time.Since(start)
			return rUnknown
		}
		if line == "" {
			continue
		}
		if strings.HasPrefix(line, "(error") {
			s.sawError = true
			s.failed = true
			if s.lastErr == "" {
				s.lastErr = line
				if p := os.Getenv("SYMGO_SMTFAIL"); p != "" {
					os.WriteFile(fmt.Sprintf("%s.%d.%d.smt2", p, os.Getpid(), s.stats.errors), []byte(strings.Join(s.recent, "")+"\n; ERROR: "+line+"\n"), 0o644)
				}
			}
			s.stats.errors++
			continue
		}
		switch line {
		case "sat":
			res = rSat
		case "unsat":
			res = rUnsat
		case "unknown", "timeout":
			res = rUnknown
		default:
			continue
		}
		break
	}
	if s.sawError {
		res = rUnknown
		s.sawError = false
	}
	switch res {
	case rSat:
		s.stats.sat++
	case rUnsat:
		s.stats.unsat++
	default:
		s.stats.unknown++
	}
	if extra != nil && res != rSat {
		s.send("(pop 1)")
	}
	// when sat with extra, the scope is left open so that a model can be read;
	// the caller must call endModel().
	s.stats.time += time.Since(start)
	return res
}

// endModel closes the scope left open by a sat check with an extra assumption.
func (s *solver) endModel(hadExtra bool) {
	if hadExtra {
		s.send("(pop 1)")
	}
}

// model reads values for all declared variables after a sat answer.
func (s *solver) model(c *termCtx, vars []*Term) map[string]*Term {
	m := make(map[string]*Term)
	if len(vars) == 0 {
		return m
	}
	var names []string
	for _, v := range vars {
		names = append(names, s.ref(v))
	}
	s.send("(get-value (" + strings.Join(names, " ") + "))")
	s.flush()
	// read balanced s-expression
	var sb strings.Builder
	depth := 0
	started := false
	for {
		line, err := s.readLine()
		if err != nil {
			return m
		}
		if strings.HasPrefix(line, "(error") {
			s.stats.errors++
			return m
		}
		sb.WriteString(line)
		sb.WriteByte(' ')
		for _, ch := range line {
			if ch == '(' {
				depth++
				started = true
			} else if ch == ')' {
				depth--
			}
		}
		if started && depth <= 0 {
			break
		}
	}
	toks := tokenizeSexp(sb.String())
	pos := 0
	root := parseSexp(toks, &pos)
	byName := map[string]*Term{}
	for _, v := range vars {
		byName[v.name] = v
	}
	for _, pair := range root.list {
		if len(pair.list) != 2 {
			continue
		}
		name := strings.Trim(pair.list[0].atom, "|")
		v := byName[name]
		if v == nil {
			continue
		}
		if val := sexpToConst(c, pair.list[1], v.sort); val != nil {
			m[name] = val
		}
	}
	return m
}

type sexp struct {
	atom string
	list []*sexp
}

func tokenizeSexp(s string) []string {
	var toks []string
	i := 0
	for i < len(s) {
		ch := s[i]
		switch {
		case ch == '(' || ch == ')':
			toks = append(toks, string(ch))
			i++
		case ch == ' ' || ch == '\n' || ch == '\t' || ch == '\r':
			i++
		case ch == '|':
			j := strings.IndexByte(s[i+1:], '|')
			toks = append(toks, s[i:i+j+2])
			i += j + 2
		default:
			j := i
			for j < len(s) && !strings.ContainsRune("() \n\t\r", rune(s[j])) {
				j++
			}
			toks = append(toks, s[i:j])
			i = j
		}
	}
	return toks
}

func parseSexp(toks []string, pos *int) *sexp {
	if *pos >= len(toks) {
		return &sexp{}
	}
	t := toks[*pos]
	*pos++
	if t == "(" {
		n := &sexp{list: []*sexp{}}
		for *pos < len(toks) && toks[*pos] != ")" {
			n.list = append(n.list, parseSexp(toks, pos))
		}
		*pos++
		return n
	}
	return &sexp{atom: t}
}

func sexpToConst(c *termCtx, e *sexp, s tsort) *Term {
	switch s.k {
	case sBool:
		return c.Bool(e.atom == "true")
	case sBV:
		a := e.atom
		if strings.HasPrefix(a, "#x") {
			v := new(big.Int)
			v.SetString(a[2:], 16)
			return c.BV(s.w, v.Uint64())
		}
		if strings.HasPrefix(a, "#b") {
			v := new(big.Int)
			v.SetString(a[2:], 2)
			return c.BV(s.w, v.Uint64())
		}
		if len(e.list) == 3 && e.list[0].atom == "_" && strings.HasPrefix(e.list[1].atom, "bv") {
			v := new(big.Int)
			v.SetString(e.list[1].atom[2:], 10)
			return c.BV(s.w, v.Uint64())
		}
	case sInt:
		if e.atom != "" {
			v := new(big.Int)
			if _, ok := v.SetString(e.atom, 10); ok {
				return c.Int(v)
			}
		}
		if len(e.list) == 2 && e.list[0].atom == "-" {
			v := new(big.Int)
			if _, ok := v.SetString(e.list[1].atom, 10); ok {
				return c.Int(v.Neg(v))
			}
		}
	}
	return nil
}
