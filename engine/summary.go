package main

// Merge-mode execution ("summaries") of small pure functions: all paths of the
// callee are explored locally and combined into one ite-term, so that the
// caller does not fork. The result is cached per worker on the argument terms.

import (
	"fmt"
	"go/token"
	"go/types"
	"strings"

	"golang.org/x/tools/go/ssa"
)

type sumEntry struct {
	val value
	ok  bool
}

type sumState struct {
	decisions []int
	pos       int
	pc        []*Term
	stack     [][]int
}

func argKey(sb *strings.Builder, v value) bool {
	switch v := v.(type) {
	case symv:
		fmt.Fprintf(sb, "s%d:%d,", v.k, v.t.id)
	case symstr:
		sb.WriteString("S[")
		for _, b := range v.b {
			if !argKey(sb, b) {
				return false
			}
		}
		sb.WriteString("],")
	case bool, int, int8, int16, int32, int64, uint, uint8, uint16, uint32, uint64, uintptr, string:
		fmt.Fprintf(sb, "%T:%#v,", v, v)
	case []value:
		sb.WriteString("[")
		for _, b := range v {
			if !argKey(sb, b) {
				return false
			}
		}
		fmt.Fprintf(sb, "]c%d,", cap(v))
	default:
		return false
	}
	return true
}

func (w *world) sumSolver() *solver {
	if w.sv2 == nil {
		sv, err := newSolver(w.ex.solverBin, w.ex.timeoutMs)
		if err != nil {
			panic(unsupported("cannot start summary solver: " + err.Error()))
		}
		w.sv2 = sv
	}
	return w.sv2
}

func (w *world) sumFeasible(extra *Term) satResult {
	sv := w.sumSolver()
	sv.reset()
	for _, c := range w.sum.pc {
		sv.assert(c)
	}
	r := sv.check(extra)
	if r == rSat {
		sv.endModel(extra != nil)
	}
	sv.reset()
	return r
}

func (w *world) sumBranch(cond *Term) bool {
	s := w.sum
	not := w.tc.Not(cond)
	if s.pos < len(s.decisions) {
		d := s.decisions[s.pos]
		s.pos++
		if d == 0 {
			s.pc = append(s.pc, cond)
			return true
		}
		s.pc = append(s.pc, not)
		return false
	}
	rt := w.sumFeasible(cond)
	rf := rSat
	if rt != rUnsat {
		rf = w.sumFeasible(not)
	}
	switch {
	case rt != rUnsat && rf != rUnsat:
		s.stack = append(s.stack, append(append([]int{}, s.decisions...), 1))
		s.decisions = append(s.decisions, 0)
		s.pos++
		s.pc = append(s.pc, cond)
		return true
	case rt != rUnsat:
		s.decisions = append(s.decisions, 0)
		s.pos++
		s.pc = append(s.pc, cond)
		return true
	default:
		s.decisions = append(s.decisions, 1)
		s.pos++
		s.pc = append(s.pc, not)
		return false
	}
}

// mergeVals combines two results under cond (cond ? a : b).
func (w *world) mergeVals(cond *Term, a, b value) (value, bool) {
	switch av := a.(type) {
	case nil:
		return nil, b == nil
	case tuple:
		bv, ok := b.(tuple)
		if !ok || len(av) != len(bv) {
			return nil, false
		}
		r := make(tuple, len(av))
		for i := range av {
			m, ok := w.mergeVals(cond, av[i], bv[i])
			if !ok {
				return nil, false
			}
			r[i] = m
		}
		return r, true
	case string, symstr:
		if !isStringVal(b) || strLen(a) != strLen(b) {
			return nil, false
		}
		ab, bb := strBytes(a), strBytes(b)
		r := make([]value, len(ab))
		for i := range ab {
			r[i] = mkValue(types.Uint8, w.tc.Ite(cond, w.termOf(ab[i]), w.termOf(bb[i])))
		}
		return mkString(r), true
	case iface:
		bv, ok := b.(iface)
		if !ok || !sameType(av.t, bv.t) {
			return nil, false
		}
		if av.t == nil {
			return av, true
		}
		m, ok := w.mergeVals(cond, av.v, bv.v)
		if !ok {
			return nil, false
		}
		return iface{av.t, m}, true
	case mathInt:
		if bm, ok := b.(mathInt); ok {
			return mathInt{w.tc.Ite(cond, av.t, bm.t)}, true
		}
		return nil, false
	case *value:
		if bp, ok := b.(*value); ok && bp == av {
			return a, true
		}
		return nil, false
	}
	ka, oka := kindOf(a)
	kb, okb := kindOf(b)
	if oka && okb && ka == kb {
		return mkValue(ka, w.tc.Ite(cond, w.termOf(a), w.termOf(b))), true
	}
	return nil, false
}

func (w *world) callSummarized(caller *frame, callpos token.Pos, fn *ssa.Function, args []value) (res value, ok bool) {
	var sb strings.Builder
	sb.WriteString(fn.String())
	sb.WriteByte('|')
	cacheable := true
	allConcrete := true
	for _, a := range args {
		if !argKey(&sb, a) {
			cacheable = false
			break
		}
	}
	for _, a := range args {
		if isSym(a) {
			allConcrete = false
		}
		if sl, ok := a.([]value); ok {
			for _, e := range sl {
				if isSym(e) {
					allConcrete = false
				}
			}
		}
	}
	if allConcrete || !cacheable {
		return nil, false // plain execution does not fork (or is not summarisable)
	}
	key := sb.String()
	if e, hit := w.sumCache[key]; hit {
		w.ex.mu.Lock()
		w.ex.sumHits++
		w.ex.mu.Unlock()
		return e.val, e.ok
	}
	saved := w.sum
	w.sum = &sumState{stack: [][]int{{}}}
	w.summaryDepth++
	savedFuel := w.fuel
	type res1 struct {
		cond *Term
		val  value
	}
	var results []res1
	fail := ""
	func() {
		defer func() {
			w.summaryDepth--
			if p := recover(); p != nil {
				if ab, isAb := p.(engineAbort); isAb && (ab.kind == abStop || ab.kind == abRetry) {
					w.sum = saved
					panic(p)
				}
				fail = fmt.Sprint(p)
			}
		}()
		for len(w.sum.stack) > 0 {
			n := len(w.sum.stack)
			prefix := w.sum.stack[n-1]
			w.sum.stack = w.sum.stack[:n-1]
			w.sum.decisions = prefix
			w.sum.pos = 0
			w.sum.pc = nil
			if len(results) > 256 {
				panic("too many paths in summary")
			}
			// copy slice args so that in-place writes by one local path do not leak
			r := w.callSSA(caller, callpos, fn, args, nil)
			results = append(results, res1{w.tc.And(w.sum.pc...), r})
		}
	}()
	w.sum = saved
	w.fuel = savedFuel
	if fail != "" || len(results) == 0 {
		w.sumCache[key] = sumEntry{nil, false}
		w.ex.mu.Lock()
		w.ex.sumFail[fn.String()+": "+fail]++
		w.ex.mu.Unlock()
		return nil, false
	}
	merged := results[len(results)-1].val
	for i := len(results) - 2; i >= 0; i-- {
		m, ok := w.mergeVals(results[i].cond, results[i].val, merged)
		if !ok {
			w.sumCache[key] = sumEntry{nil, false}
			w.ex.mu.Lock()
			w.ex.sumFail[fn.String()+": results not mergeable"]++
			w.ex.mu.Unlock()
			return nil, false
		}
		merged = m
	}
	w.sumCache[key] = sumEntry{merged, true}
	w.ex.mu.Lock()
	w.ex.sumMade++
	w.ex.mu.Unlock()
	return merged, true
}
