package main

// Terms: hash-consed, constant-folded SMT-LIB2 expressions.
//
// Sorts: Bool, BV(w) for Go integers (wrap-around semantics), Int for the
// mathematical integers of the decimal model.

import (
	"fmt"
	"math/big"
	"strconv"
	"strings"
)

type sortKind uint8

const (
	sBool sortKind = iota
	sBV
	sInt
)

type tsort struct {
	k sortKind
	w int // BV width
}

func (s tsort) String() string {
	switch s.k {
	case sBool:
		return "Bool"
	case sBV:
		return "(_ BitVec " + strconv.Itoa(s.w) + ")"
	case sInt:
		return "Int"
	}
	return "?"
}

var (
	boolSort = tsort{k: sBool}
	intSort  = tsort{k: sInt}
)

func bvSort(w int) tsort { return tsort{k: sBV, w: w} }

type Term struct {
	op    string // "var", "const", or SMT operator (possibly indexed, printed verbatim)
	args  []*Term
	sort  tsort
	cv    uint64   // BV constant (masked) or Bool constant (0/1)
	iv    *big.Int // Int constant
	name  string   // variable name
	id    int
	size  int // tree size (saturating)
	konst bool

	// pre-solver caches
	vars     []*Term
	varsDone bool
	varsOK   bool
	set      *bitset
	setFail  bool
}

type termCtx struct {
	keyBuf []byte
	bvc    map[[2]uint64]*Term
	exact  map[int]*Term // BV term id -> Int term it equals exactly (signed, known in range)
	tab    map[string]*Term
	nextID int
	tt, ff *Term
}

func newTermCtx() *termCtx {
	c := &termCtx{tab: make(map[string]*Term), bvc: make(map[[2]uint64]*Term), exact: make(map[int]*Term)}
	c.tt = c.intern(&Term{op: "const", sort: boolSort, cv: 1, konst: true})
	c.ff = c.intern(&Term{op: "const", sort: boolSort, cv: 0, konst: true})
	return c
}

func (c *termCtx) key(t *Term) string {
	b := c.keyBuf[:0]
	b = append(b, t.op...)
	b = append(b, '|', byte('0'+t.sort.k))
	b = strconv.AppendInt(b, int64(t.sort.w), 10)
	switch t.op {
	case "const":
		b = append(b, '|')
		if t.iv != nil {
			b = t.iv.Append(b, 10)
		} else {
			b = strconv.AppendUint(b, t.cv, 16)
		}
	case "var":
		b = append(b, '|')
		b = append(b, t.name...)
	default:
		for _, a := range t.args {
			b = append(b, ',')
			b = strconv.AppendInt(b, int64(a.id), 10)
		}
	}
	c.keyBuf = b
	return string(b)
}

func (c *termCtx) intern(t *Term) *Term {
	k := c.key(t)
	if old, ok := c.tab[k]; ok {
		return old
	}
	c.nextID++
	t.id = c.nextID
	t.size = 1
	for _, a := range t.args {
		t.size += a.size
		if t.size > 1<<20 {
			t.size = 1 << 20
		}
	}
	c.tab[k] = t
	return t
}

func mask(w int) uint64 {
	if w >= 64 {
		return ^uint64(0)
	}
	return (uint64(1) << uint(w)) - 1
}

func (c *termCtx) Bool(b bool) *Term {
	if b {
		return c.tt
	}
	return c.ff
}

func (c *termCtx) BV(w int, v uint64) *Term {
	v &= mask(w)
	k := [2]uint64{uint64(w), v}
	if t, ok := c.bvc[k]; ok {
		return t
	}
	t := c.intern(&Term{op: "const", sort: bvSort(w), cv: v, konst: true})
	c.bvc[k] = t
	return t
}

func (c *termCtx) Int(v *big.Int) *Term {
	return c.intern(&Term{op: "const", sort: intSort, iv: new(big.Int).Set(v), konst: true})
}

func (c *termCtx) IntI(v int64) *Term { return c.Int(big.NewInt(v)) }

func (c *termCtx) Var(name string, s tsort) *Term {
	return c.intern(&Term{op: "var", sort: s, name: name})
}

func (t *Term) isTrue() bool  { return t.konst && t.sort.k == sBool && t.cv == 1 }
func (t *Term) isFalse() bool { return t.konst && t.sort.k == sBool && t.cv == 0 }

func signExt(v uint64, w int) int64 {
	if w >= 64 {
		return int64(v)
	}
	if v&(1<<uint(w-1)) != 0 {
		return int64(v | ^mask(w))
	}
	return int64(v)
}

func (c *termCtx) Not(a *Term) *Term {
	if a.konst {
		return c.Bool(a.cv == 0)
	}
	if a.op == "not" {
		return a.args[0]
	}
	return c.intern(&Term{op: "not", args: []*Term{a}, sort: boolSort})
}

func (c *termCtx) And(xs ...*Term) *Term {
	var out []*Term
	seen := map[int]bool{}
	for _, x := range xs {
		if x.isTrue() {
			continue
		}
		if x.isFalse() {
			return c.ff
		}
		if x.op == "and" {
			for _, y := range x.args {
				if !seen[y.id] {
					seen[y.id] = true
					out = append(out, y)
				}
			}
			continue
		}
		if !seen[x.id] {
			seen[x.id] = true
			out = append(out, x)
		}
	}
	for _, x := range out {
		if x.op == "not" && seen[x.args[0].id] {
			return c.ff
		}
	}
	switch len(out) {
	case 0:
		return c.tt
	case 1:
		return out[0]
	}
	return c.intern(&Term{op: "and", args: out, sort: boolSort})
}

func (c *termCtx) Or(xs ...*Term) *Term {
	var out []*Term
	seen := map[int]bool{}
	for _, x := range xs {
		if x.isFalse() {
			continue
		}
		if x.isTrue() {
			return c.tt
		}
		if x.op == "or" {
			for _, y := range x.args {
				if !seen[y.id] {
					seen[y.id] = true
					out = append(out, y)
				}
			}
			continue
		}
		if !seen[x.id] {
			seen[x.id] = true
			out = append(out, x)
		}
	}
	for _, x := range out {
		if x.op == "not" && seen[x.args[0].id] {
			return c.tt
		}
	}
	switch len(out) {
	case 0:
		return c.ff
	case 1:
		return out[0]
	}
	return c.intern(&Term{op: "or", args: out, sort: boolSort})
}

func (c *termCtx) Implies(a, b *Term) *Term { return c.Or(c.Not(a), b) }

func (c *termCtx) Ite(cond, a, b *Term) *Term {
	if cond.konst {
		if cond.cv == 1 {
			return a
		}
		return b
	}
	if a == b {
		return a
	}
	if a.sort != b.sort {
		panic(fmt.Sprintf("ite sort mismatch %v %v", a.sort, b.sort))
	}
	if a.sort.k == sBool {
		if a.isTrue() && b.isFalse() {
			return cond
		}
		if a.isFalse() && b.isTrue() {
			return c.Not(cond)
		}
		if a.isTrue() {
			return c.Or(cond, b)
		}
		if a.isFalse() {
			return c.And(c.Not(cond), b)
		}
		if b.isTrue() {
			return c.Or(c.Not(cond), a)
		}
		if b.isFalse() {
			return c.And(cond, a)
		}
	}
	return c.intern(&Term{op: "ite", args: []*Term{cond, a, b}, sort: a.sort})
}

func (c *termCtx) Eq(a, b *Term) *Term {
	if a == b {
		return c.tt
	}
	if a.sort != b.sort {
		panic(fmt.Sprintf("eq sort mismatch %v %v", a.sort, b.sort))
	}
	if a.sort.k == sBV && !(a.konst && b.konst) {
		if ia, ok := c.asExactInt(a); ok && !a.konst || ok && !b.konst {
			if ib, ok := c.asExactInt(b); ok {
				return c.Eq(ia, ib)
			}
		}
	}
	if a.konst && b.konst {
		if a.iv != nil {
			return c.Bool(a.iv.Cmp(b.iv) == 0)
		}
		return c.Bool(a.cv == b.cv)
	}
	if a.sort.k == sBool {
		if a.konst {
			a, b = b, a
		}
		if b.konst {
			if b.cv == 1 {
				return a
			}
			return c.Not(a)
		}
	}
	// push equality with a constant through ite of constants (table lookups)
	if b.konst && a.op == "ite" && (a.args[1].konst || a.args[2].konst) && a.size < 4096 {
		return c.Ite(a.args[0], c.Eq(a.args[1], b), c.Eq(a.args[2], b))
	}
	if a.konst && b.op == "ite" && (b.args[1].konst || b.args[2].konst) && b.size < 4096 {
		return c.Ite(b.args[0], c.Eq(b.args[1], a), c.Eq(b.args[2], a))
	}
	if a.id > b.id {
		a, b = b, a
	}
	return c.intern(&Term{op: "=", args: []*Term{a, b}, sort: boolSort})
}

// BV binary arithmetic/logic. op is an SMT-LIB bv operator.
func (c *termCtx) BVBin(op string, a, b *Term) *Term {
	if a.sort != b.sort || a.sort.k != sBV {
		panic(fmt.Sprintf("bvbin %s sort mismatch %v %v", op, a.sort, b.sort))
	}
	w := a.sort.w
	if a.konst && b.konst {
		x, y := a.cv, b.cv
		var r uint64
		ok := true
		switch op {
		case "bvadd":
			r = x + y
		case "bvsub":
			r = x - y
		case "bvmul":
			r = x * y
		case "bvand":
			r = x & y
		case "bvor":
			r = x | y
		case "bvxor":
			r = x ^ y
		case "bvshl":
			if y >= uint64(w) {
				r = 0
			} else {
				r = x << y
			}
		case "bvlshr":
			if y >= uint64(w) {
				r = 0
			} else {
				r = x >> y
			}
		case "bvashr":
			sx := signExt(x, w)
			if y >= uint64(w) {
				y = uint64(w - 1)
			}
			r = uint64(sx >> y)
		case "bvudiv":
			if y == 0 {
				ok = false
			} else {
				r = x / y
			}
		case "bvurem":
			if y == 0 {
				ok = false
			} else {
				r = x % y
			}
		case "bvsdiv":
			if y == 0 {
				ok = false
			} else {
				sx, sy := signExt(x, w), signExt(y, w)
				if sy == -1 {
					r = uint64(-sx)
				} else {
					r = uint64(sx / sy)
				}
			}
		case "bvsrem":
			if y == 0 {
				ok = false
			} else {
				sx, sy := signExt(x, w), signExt(y, w)
				if sy == -1 {
					r = 0
				} else {
					r = uint64(sx % sy)
				}
			}
		default:
			ok = false
		}
		if ok {
			return c.BV(w, r)
		}
	}
	// light identities
	switch op {
	case "bvadd", "bvor", "bvxor":
		if a.konst && a.cv == 0 {
			return b
		}
		if b.konst && b.cv == 0 {
			return a
		}
	case "bvsub", "bvshl", "bvlshr", "bvashr":
		if b.konst && b.cv == 0 {
			return a
		}
	case "bvand":
		if (a.konst && a.cv == 0) || (b.konst && b.cv == 0) {
			return c.BV(w, 0)
		}
		if a.konst && a.cv == mask(w) {
			return b
		}
		if b.konst && b.cv == mask(w) {
			return a
		}
	case "bvmul":
		if a.konst && a.cv == 1 {
			return b
		}
		if b.konst && b.cv == 1 {
			return a
		}
		if (a.konst && a.cv == 0) || (b.konst && b.cv == 0) {
			return c.BV(w, 0)
		}
	}
	return c.intern(&Term{op: op, args: []*Term{a, b}, sort: a.sort})
}

// BV comparison: op in bvult bvule bvugt bvuge bvslt bvsle bvsgt bvsge.
// asExactInt returns the Int term a BV term equals (signed reading), when known.
func (c *termCtx) asExactInt(a *Term) (*Term, bool) {
	if a.konst {
		return c.IntI(signExt(a.cv, a.sort.w)), true
	}
	t, ok := c.exact[a.id]
	return t, ok
}

func (c *termCtx) BVCmp(op string, a, b *Term) *Term {
	if a.sort != b.sort || a.sort.k != sBV {
		panic(fmt.Sprintf("bvcmp %s sort mismatch %v %v", op, a.sort, b.sort))
	}
	w := a.sort.w
	if !(a.konst && b.konst) && len(op) == 5 && op[2] == 's' {
		if ia, ok := c.asExactInt(a); ok {
			if ib, ok := c.asExactInt(b); ok {
				switch op {
				case "bvslt":
					return c.IntCmp("<", ia, ib)
				case "bvsle":
					return c.IntCmp("<=", ia, ib)
				case "bvsgt":
					return c.IntCmp(">", ia, ib)
				case "bvsge":
					return c.IntCmp(">=", ia, ib)
				}
			}
		}
	}
	if a.konst && b.konst {
		x, y := a.cv, b.cv
		sx, sy := signExt(x, w), signExt(y, w)
		switch op {
		case "bvult":
			return c.Bool(x < y)
		case "bvule":
			return c.Bool(x <= y)
		case "bvugt":
			return c.Bool(x > y)
		case "bvuge":
			return c.Bool(x >= y)
		case "bvslt":
			return c.Bool(sx < sy)
		case "bvsle":
			return c.Bool(sx <= sy)
		case "bvsgt":
			return c.Bool(sx > sy)
		case "bvsge":
			return c.Bool(sx >= sy)
		}
	}
	if a == b {
		switch op {
		case "bvule", "bvuge", "bvsle", "bvsge":
			return c.tt
		default:
			return c.ff
		}
	}
	// Range facts for zero-extended operands compared with constants:
	// (zero_extend k x) < C with C > max(x) is true, etc.
	if b.konst {
		if hi, ok := c.ubound(a); ok {
			switch op {
			case "bvult":
				if hi < b.cv {
					return c.tt
				}
			case "bvule":
				if hi <= b.cv {
					return c.tt
				}
			case "bvugt":
				if hi <= b.cv {
					return c.ff
				}
			case "bvuge":
				if hi < b.cv {
					return c.ff
				}
			case "bvslt", "bvsle", "bvsgt", "bvsge":
				// both non-negative as signed if hi and b fit below sign bit
				if hi < 1<<uint(w-1) && b.cv < 1<<uint(w-1) {
					return c.BVCmp("bvu"+op[3:], a, b)
				}
			}
		}
	}
	return c.intern(&Term{op: op, args: []*Term{a, b}, sort: boolSort})
}

// ubound returns an unsigned upper bound for a when cheaply known.
func (c *termCtx) ubound(a *Term) (uint64, bool) {
	if a.konst {
		return a.cv, true
	}
	if strings.HasPrefix(a.op, "(_ zero_extend") {
		return mask(a.args[0].sort.w), true
	}
	if a.op == "bvand" {
		if a.args[0].konst {
			return a.args[0].cv, true
		}
		if a.args[1].konst {
			return a.args[1].cv, true
		}
	}
	return 0, false
}

func (c *termCtx) BVNeg(a *Term) *Term {
	if a.konst {
		return c.BV(a.sort.w, -a.cv)
	}
	return c.intern(&Term{op: "bvneg", args: []*Term{a}, sort: a.sort})
}

func (c *termCtx) BVNot(a *Term) *Term {
	if a.konst {
		return c.BV(a.sort.w, ^a.cv)
	}
	return c.intern(&Term{op: "bvnot", args: []*Term{a}, sort: a.sort})
}

// Resize converts a BV term to width w, sign- or zero-extending per signed.
func (c *termCtx) Resize(a *Term, w int, signed bool) *Term {
	aw := a.sort.w
	if aw == w {
		return a
	}
	if a.konst {
		if signed {
			return c.BV(w, uint64(signExt(a.cv, aw)))
		}
		return c.BV(w, a.cv)
	}
	if w < aw {
		// extract of an extension of something narrow enough
		if (strings.HasPrefix(a.op, "(_ zero_extend") || strings.HasPrefix(a.op, "(_ sign_extend")) && a.args[0].sort.w == w {
			return a.args[0]
		}
		return c.intern(&Term{op: fmt.Sprintf("(_ extract %d 0)", w-1), args: []*Term{a}, sort: bvSort(w)})
	}
	if signed {
		return c.intern(&Term{op: fmt.Sprintf("(_ sign_extend %d)", w-aw), args: []*Term{a}, sort: bvSort(w)})
	}
	if strings.HasPrefix(a.op, "(_ zero_extend") {
		return c.Resize(a.args[0], w, false)
	}
	return c.intern(&Term{op: fmt.Sprintf("(_ zero_extend %d)", w-aw), args: []*Term{a}, sort: bvSort(w)})
}

// Integer (mathematical) operations.
func (c *termCtx) IntBin(op string, a, b *Term) *Term {
	if a.sort.k != sInt || b.sort.k != sInt {
		panic("intbin sort")
	}
	if a.konst && b.konst {
		r := new(big.Int)
		switch op {
		case "+":
			return c.Int(r.Add(a.iv, b.iv))
		case "-":
			return c.Int(r.Sub(a.iv, b.iv))
		case "*":
			return c.Int(r.Mul(a.iv, b.iv))
		case "div": // SMT-LIB div: floor for positive divisor, Euclidean in general
			if b.iv.Sign() != 0 {
				m := new(big.Int)
				r.DivMod(a.iv, b.iv, m)
				return c.Int(r)
			}
		case "mod":
			if b.iv.Sign() != 0 {
				m := new(big.Int)
				r.DivMod(a.iv, b.iv, m)
				return c.Int(m)
			}
		}
	}
	switch op {
	case "+":
		if a.konst && a.iv.Sign() == 0 {
			return b
		}
		if b.konst && b.iv.Sign() == 0 {
			return a
		}
	case "-":
		if b.konst && b.iv.Sign() == 0 {
			return a
		}
	case "*":
		if a.konst && a.iv.IsInt64() && a.iv.Int64() == 1 {
			return b
		}
		if b.konst && b.iv.IsInt64() && b.iv.Int64() == 1 {
			return a
		}
		if (a.konst && a.iv.Sign() == 0) || (b.konst && b.iv.Sign() == 0) {
			return c.IntI(0)
		}
	}
	return c.intern(&Term{op: op, args: []*Term{a, b}, sort: intSort})
}

func (c *termCtx) IntCmp(op string, a, b *Term) *Term {
	if a.konst && b.konst {
		r := a.iv.Cmp(b.iv)
		switch op {
		case "<":
			return c.Bool(r < 0)
		case "<=":
			return c.Bool(r <= 0)
		case ">":
			return c.Bool(r > 0)
		case ">=":
			return c.Bool(r >= 0)
		}
	}
	return c.intern(&Term{op: op, args: []*Term{a, b}, sort: boolSort})
}

func (c *termCtx) IntNeg(a *Term) *Term {
	if a.konst {
		return c.Int(new(big.Int).Neg(a.iv))
	}
	return c.intern(&Term{op: "-", args: []*Term{a}, sort: intSort})
}

// BV2Int: signed or unsigned interpretation of a BV as Int.
func (c *termCtx) BV2Int(a *Term, signed bool) *Term {
	w := a.sort.w
	if signed && !a.konst {
		if t, ok := c.exact[a.id]; ok {
			return t
		}
	}
	if a.konst {
		if signed {
			return c.IntI(signExt(a.cv, w))
		}
		return c.Int(new(big.Int).SetUint64(a.cv))
	}
	u := c.intern(&Term{op: "bv2nat", args: []*Term{a}, sort: intSort})
	if !signed {
		return u
	}
	two := new(big.Int).Lsh(big.NewInt(1), uint(w))
	neg := c.BVCmp("bvslt", a, c.BV(w, 0))
	return c.Ite(neg, c.IntBin("-", u, c.Int(two)), u)
}

// Int2BV truncates an Int to w bits (two's complement).
func (c *termCtx) Int2BV(a *Term, w int) *Term {
	if a.konst {
		m := new(big.Int).Lsh(big.NewInt(1), uint(w))
		r := new(big.Int).Mod(a.iv, m)
		return c.BV(w, r.Uint64())
	}
	return c.intern(&Term{op: fmt.Sprintf("(_ int2bv %d)", w), args: []*Term{a}, sort: bvSort(w)})
}

// UF application (uninterpreted function, declared on demand by the solver layer).
func (c *termCtx) App(fn string, s tsort, args ...*Term) *Term {
	return c.intern(&Term{op: "uf:" + fn, args: args, sort: s})
}

// ---------------------------------------------------------------------------
// Printing

func constString(t *Term) string {
	switch t.sort.k {
	case sBool:
		if t.cv == 1 {
			return "true"
		}
		return "false"
	case sBV:
		w := t.sort.w
		if w%4 == 0 {
			return fmt.Sprintf("#x%0*x", w/4, t.cv)
		}
		return fmt.Sprintf("#b%0*b", w, t.cv)
	case sInt:
		if t.iv.Sign() < 0 {
			return "(- " + new(big.Int).Neg(t.iv).String() + ")"
		}
		return t.iv.String()
	}
	return "?"
}

// evalTerm evaluates t under a model (variable name -> constant term).
// Used for engine-concrete checks of counterexamples where cheap; returns nil
// if any sub-term is not evaluable here.
func (c *termCtx) evalTerm(t *Term, model map[string]*Term, memo map[int]*Term) *Term {
	if t.konst {
		return t
	}
	if r, ok := memo[t.id]; ok {
		return r
	}
	var r *Term
	switch {
	case t.op == "var":
		r = model[t.name]
	default:
		args := make([]*Term, len(t.args))
		ok := true
		for i, a := range t.args {
			args[i] = c.evalTerm(a, model, memo)
			if args[i] == nil {
				ok = false
				break
			}
		}
		if ok {
			r = c.rebuild(t, args)
			if r != nil && !r.konst {
				r = nil
			}
		}
	}
	memo[t.id] = r
	return r
}

func (c *termCtx) rebuild(t *Term, args []*Term) *Term {
	switch t.op {
	case "not":
		return c.Not(args[0])
	case "and":
		return c.And(args...)
	case "or":
		return c.Or(args...)
	case "ite":
		return c.Ite(args[0], args[1], args[2])
	case "=":
		return c.Eq(args[0], args[1])
	case "bvneg":
		return c.BVNeg(args[0])
	case "bvnot":
		return c.BVNot(args[0])
	case "bvult", "bvule", "bvugt", "bvuge", "bvslt", "bvsle", "bvsgt", "bvsge":
		return c.BVCmp(t.op, args[0], args[1])
	case "+", "*", "div", "mod":
		return c.IntBin(t.op, args[0], args[1])
	case "-":
		if len(args) == 1 {
			return c.IntNeg(args[0])
		}
		return c.IntBin("-", args[0], args[1])
	case "<", "<=", ">", ">=":
		return c.IntCmp(t.op, args[0], args[1])
	case "bv2nat":
		return c.BV2Int(args[0], false)
	}
	if strings.HasPrefix(t.op, "bv") {
		return c.BVBin(t.op, args[0], args[1])
	}
	if strings.HasPrefix(t.op, "(_ zero_extend") {
		return c.Resize(args[0], t.sort.w, false)
	}
	if strings.HasPrefix(t.op, "(_ sign_extend") {
		return c.Resize(args[0], t.sort.w, true)
	}
	if strings.HasPrefix(t.op, "(_ extract") {
		return c.Resize(args[0], t.sort.w, false)
	}
	if strings.HasPrefix(t.op, "(_ int2bv") {
		return c.Int2BV(args[0], t.sort.w)
	}
	return nil
}

// Int2BVExact is Int2BV for an Int term known (by the caller's preceding range
// check on this path) to fit the signed w-bit range; comparisons between such
// terms are decided in the Int theory.
func (c *termCtx) Int2BVExact(a *Term, w int) *Term {
	t := c.Int2BV(a, w)
	if !t.konst {
		c.exact[t.id] = a
	}
	return t
}
