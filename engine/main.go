package main

import (
	"encoding/json"
	"flag"
	"fmt"
	"go/token"
	"os"
	"regexp"
	"runtime"
	"runtime/pprof"
	"sort"
	"strings"
	"time"

	"golang.org/x/tools/go/packages"
	"golang.org/x/tools/go/ssa"
	"golang.org/x/tools/go/ssa/ssautil"
)

const tokenADD = token.ADD

type entryResult struct {
	Entry            string                `json:"entry"`
	Status           string                `json:"status"` // ok, violation, inconclusive
	Paths            int                   `json:"paths"`
	Completed        int                   `json:"completed"`
	Dropped          int                   `json:"dropped"`
	Forks            int                   `json:"forks"`
	Queries          int                   `json:"queries"`
	PreDecided       int64                 `json:"queries_decided_by_byte_domain_presolver"`
	Sat              int                   `json:"sat"`
	Unsat            int                   `json:"unsat"`
	Unknown          int                   `json:"unknown"`
	SolverErrors     int                   `json:"solver_errors"`
	SolverRetries    int                   `json:"paths_redone_after_solver_failure"`
	SolverErrSamples []string              `json:"solver_error_samples,omitempty"`
	SolverTimeS      float64               `json:"solver_time_s"`
	WallS            float64               `json:"wall_s"`
	Obligations      map[string]*oblStat   `json:"obligations"`
	Reach            map[string]int        `json:"reach"`
	ReachModels      map[string][]inputRec `json:"reach_models"`
	Violations       []violation           `json:"violations"`
	Unsupported      map[string]int        `json:"unsupported,omitempty"`
	FuelOut          []string              `json:"fuel_exhausted,omitempty"`
	Inconclusive     []string              `json:"inconclusive,omitempty"`
	Functions        map[string]string     `json:"functions_encoded"`
	InitFailed       map[string]string     `json:"init_failed,omitempty"`
	Stubs            []string              `json:"stubs"`
	Summarized       []string              `json:"summarized"`
	SumMade          int                   `json:"summaries_built"`
	SumHits          int                   `json:"summary_cache_hits"`
	SumFail          map[string]int        `json:"summary_fallbacks,omitempty"`
	UFs              []string              `json:"uninterpreted_functions,omitempty"`
	Samples          []string              `json:"samples,omitempty"`
	Fuel             int                   `json:"fuel"`
}

type output struct {
	Pkg     string        `json:"pkg"`
	LoadS   float64       `json:"load_s"`
	Solver  string        `json:"solver"`
	Entries []entryResult `json:"entries"`
	Error   string        `json:"error,omitempty"`
	GoVer   string        `json:"go_version"`
}

var directiveRe = regexp.MustCompile(`(?m)^//verif:(stub|summarize|setarg)\s+(\S+)(?:\s+(\S+))?(?:\s+(\S+))?\s*$`)

func main() {
	dir := flag.String("dir", "/repo", "module directory")
	pkgPat := flag.String("pkg", "", "package pattern (relative to dir) holding the harness")
	overlay := flag.String("overlay", "", "comma separated virtual=real file pairs")
	entries := flag.String("entry", "", "comma separated harness entry functions")
	workers := flag.Int("workers", runtime.NumCPU(), "worker goroutines")
	fuel := flag.Int("fuel", 200000, "basic blocks per path")
	timeout := flag.Int("timeout", 10000, "solver timeout per query (ms)")
	maxPaths := flag.Int("maxpaths", 0, "path budget (0 = unlimited)")
	maxViol := flag.Int("maxviol", 3, "stop after this many violations")
	out := flag.String("out", "", "result file (JSON); stdout if empty")
	solverCmd := flag.String("solver", "z3 -in", "solver command")
	verbose := flag.Bool("v", false, "progress output")
	trace := flag.Bool("trace", false, "trace calls")
	replay := flag.String("replay", "", "engine-concrete replay of a counterexample file")
	known := flag.String("known", "", "known findings file")
	noPre := flag.Bool("nopresolve", false, "send every query to the SMT solver")
	paramStr := flag.String("params", "", "harness parameters name=int,...")
	repoPrefix := flag.String("repoprefix", "cuelang.org/go", "import path prefix of the code under test")
	cpuprof := flag.String("cpuprofile", "", "write CPU profile")
	flag.Parse()
	if *cpuprof != "" {
		f, _ := os.Create(*cpuprof)
		pprof.StartCPUProfile(f)
		defer pprof.StopCPUProfile()
	}

	res := output{Pkg: *pkgPat, Solver: *solverCmd, GoVer: runtime.Version()}
	fail := func(err error) {
		res.Error = err.Error()
		writeOut(*out, &res)
		fmt.Fprintln(os.Stderr, "symgo:", err)
		os.Exit(3)
	}

	ov := map[string][]byte{}
	var harnessSrc []string
	if *overlay != "" {
		for _, pair := range strings.Split(*overlay, ",") {
			kv := strings.SplitN(pair, "=", 2)
			if len(kv) != 2 {
				fail(fmt.Errorf("bad overlay %q", pair))
			}
			b, err := os.ReadFile(kv[1])
			if err != nil {
				fail(err)
			}
			ov[kv[0]] = b
			harnessSrc = append(harnessSrc, string(b))
		}
	}
	t0 := time.Now()
	cfg := &packages.Config{
		Mode:    packages.LoadAllSyntax,
		Dir:     *dir,
		Overlay: ov,
		Env:     append(os.Environ(), "GOFLAGS=-mod=mod", "GOPROXY=off"),
	}
	pkgs, err := packages.Load(cfg, *pkgPat)
	if err != nil {
		fail(err)
	}
	if packages.PrintErrors(pkgs) > 0 {
		fail(fmt.Errorf("package load errors"))
	}
	prog, spkgs := ssautil.AllPackages(pkgs, ssa.InstantiateGenerics|ssa.SanityCheckFunctions&0)
	prog.Build()
	res.LoadS = time.Since(t0).Seconds()
	if len(spkgs) == 0 || spkgs[0] == nil {
		fail(fmt.Errorf("no ssa package"))
	}
	hp := spkgs[0]

	redirects := map[string]*ssa.Function{}
	summarize := map[string]bool{}
	var stubs, sums []string
	var setargs []setArg
	var pending [][2]string
	for _, src := range harnessSrc {
		for _, m := range directiveRe.FindAllStringSubmatch(src, -1) {
			switch m[1] {
			case "stub":
				pending = append(pending, [2]string{m[2], m[3]})
			case "summarize":
				summarize[m[2]] = true
				sums = append(sums, m[2])
			case "setarg":
				var idx, val int
				fmt.Sscan(m[3], &idx)
				fmt.Sscan(m[4], &val)
				setargs = append(setargs, setArg{prefix: strings.TrimSuffix(m[2], "*"), idx: idx, val: val})
				stubs = append(stubs, fmt.Sprintf("%s: argument %d forced to %d", m[2], idx, val))
			}
		}
	}
	// check that stub targets exist
	allFns := ssautil.AllFunctions(prog)
	names := map[string]bool{}
	for f := range allFns {
		names[f.String()] = true
	}
	byName := map[string]*ssa.Function{}
	for f := range allFns {
		byName[f.String()] = f
	}
	for _, pr := range pending {
		// the replacement is a harness function, or any function of the program by full name
		to := hp.Func(pr[1])
		if to == nil {
			to = byName[pr[1]]
		}
		if to == nil {
			fail(fmt.Errorf("stub replacement %s not found", pr[1]))
		}
		// the target may be a body-less harness declaration (alias to an unexported function)
		target := pr[0]
		if f := hp.Func(target); f != nil {
			target = f.String()
		}
		if !names[target] {
			fail(fmt.Errorf("stub target %s does not exist in the program (renamed or removed?)", pr[0]))
		}
		redirects[target] = to
		stubs = append(stubs, pr[0]+" => "+pr[1])
	}
	for t := range summarize {
		if !names[t] {
			fail(fmt.Errorf("summarize target %s does not exist in the program", t))
		}
	}

	var knownRegions []knownRegion
	if *known != "" {
		knownRegions, err = loadKnown(*known)
		if err != nil {
			fail(err)
		}
	}
	var replayIn *violation
	if *replay != "" {
		b, err := os.ReadFile(*replay)
		if err != nil {
			fail(err)
		}
		replayIn = &violation{}
		if err := json.Unmarshal(b, replayIn); err != nil {
			fail(err)
		}
	}

	params := map[string]int{}
	if *paramStr != "" {
		for _, kv := range strings.Split(*paramStr, ",") {
			p := strings.SplitN(kv, "=", 2)
			if len(p) == 2 {
				var v int
				fmt.Sscan(p[1], &v)
				params[p[0]] = v
			}
		}
	}
	if replayIn != nil && replayIn.Params != nil {
		params = replayIn.Params
	}
	exit := 0
	for _, en := range strings.Split(*entries, ",") {
		en = strings.TrimSpace(en)
		if en == "" {
			continue
		}
		fn := hp.Func(en)
		if fn == nil {
			fail(fmt.Errorf("entry %s not found in %s", en, hp.Pkg.Path()))
		}
		ex := &explorer{
			prog: prog, harnessPkg: hp, entry: fn, redirects: redirects, summarize: summarize,
			solverBin: strings.Fields(*solverCmd), timeoutMs: *timeout, fuel: *fuel,
			maxPaths: *maxPaths, maxViol: *maxViol, verbose: *verbose, traceFn: *trace,
			repoPrefix: *repoPrefix, knownExcl: knownRegions,
			unsupp: map[string]int{}, obligations: map[string]*oblStat{}, reach: map[string]int{},
			reachModel: map[string][]inputRec{}, funcs: map[string]string{}, initFailed: map[string]string{},
			sumFail: map[string]int{}, ufs: map[string]bool{}, replay: replayIn, params: params, setargs: setargs, noPresolve: *noPre,
		}
		if os.Getenv("SYMGO_FORKSITES") != "" {
			ex.forkSites = map[string]int{}
		}
		nw := *workers
		if replayIn != nil {
			nw = 1
		}
		t1 := time.Now()
		if err := ex.run(nw); err != nil {
			fail(err)
		}
		er := entryResult{
			Entry: en, Paths: ex.paths, Completed: ex.completed, Dropped: ex.dropped, Forks: ex.forks,
			Queries: ex.stats.queries, PreDecided: ex.preDecided.Load(), Sat: ex.stats.sat, Unsat: ex.stats.unsat, Unknown: ex.stats.unknown,
			SolverErrors: ex.stats.errors, SolverRetries: ex.solverRetries, SolverErrSamples: ex.solverErrSamples, SolverTimeS: ex.stats.time.Seconds(), WallS: time.Since(t1).Seconds(),
			Obligations: ex.obligations, Reach: ex.reach, ReachModels: ex.reachModel, Violations: ex.violations,
			Unsupported: ex.unsupp, FuelOut: ex.fuelOut, Inconclusive: ex.inconcl, Functions: ex.funcs,
			InitFailed: ex.initFailed, Stubs: stubs, Summarized: sums, SumMade: ex.sumMade, SumHits: ex.sumHits,
			SumFail: ex.sumFail, UFs: sortedKeys(ex.ufs), Samples: ex.samples, Fuel: *fuel,
		}
		if len(er.FuelOut) > 5 {
			er.FuelOut = append(er.FuelOut[:5], fmt.Sprintf("... %d more", len(er.FuelOut)-5))
		}
		if ex.forkSites != nil {
			type kv struct {
				k string
				v int
			}
			var l []kv
			for k, v := range ex.forkSites {
				l = append(l, kv{k, v})
			}
			sort.Slice(l, func(i, j int) bool { return l[i].v > l[j].v })
			for i, e := range l {
				if i >= 25 {
					break
				}
				fmt.Fprintf(os.Stderr, "forks %6d  %s\n", e.v, e.k)
			}
		}
		switch {
		case len(ex.violations) > 0:
			er.Status = "violation"
			if exit == 0 || exit == 3 {
				exit = 1
			}
		case len(ex.unsupp) > 0 || len(ex.fuelOut) > 0 || len(ex.inconcl) > 0:
			er.Status = "inconclusive"
			if exit == 0 {
				exit = 3
			}
		default:
			er.Status = "ok"
		}
		res.Entries = append(res.Entries, er)
		if *verbose {
			fmt.Fprintf(os.Stderr, "%s: %s paths=%d queries=%d wall=%.1fs\n", en, er.Status, er.Paths, er.Queries, er.WallS)
		}
	}
	writeOut(*out, &res)
	pprof.StopCPUProfile()
	if *cpuprof != "" {
		f, _ := os.Create(*cpuprof + ".mem")
		pprof.Lookup("allocs").WriteTo(f, 0)
		f.Close()
	}
	os.Exit(exit)
}

func writeOut(path string, res *output) {
	b, _ := json.MarshalIndent(res, "", " ")
	if path == "" {
		os.Stdout.Write(b)
		os.Stdout.WriteString("\n")
		return
	}
	os.WriteFile(path, b, 0o644)
}
