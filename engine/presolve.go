package main

// Byte-domain pre-solver.
//
// Most branch conditions in byte-level code constrain one symbolic byte at a
// time. For every 8-bit variable x the path keeps the exact set D(x) of values
// allowed by the path-condition conjuncts that mention only x (computed by
// evaluating the conjunct on all 256 values, cached on the hash-consed term).
// A query "pc ∧ c" where c mentions only x, and x occurs in no multi-variable
// conjunct of pc, is then decided exactly: satisfiable iff D(x) ∩ S(c) ≠ ∅
// (pc itself is satisfiable by invariant, and x is independent of every other
// variable). Conjunctions of independent single-variable terms and arbitrary
// disjunctions are decided structurally on top of that. Whatever does not fit
// goes to the SMT solver. The pre-solver never answers "unknown" wrongly: when
// it cannot decide it returns (_, false).

type bitset [4]uint64

func (b *bitset) and(o *bitset) bitset {
	return bitset{b[0] & o[0], b[1] & o[1], b[2] & o[2], b[3] & o[3]}
}
func (b *bitset) andNot(o *bitset) bitset {
	return bitset{b[0] &^ o[0], b[1] &^ o[1], b[2] &^ o[2], b[3] &^ o[3]}
}
func (b *bitset) empty() bool { return b[0]|b[1]|b[2]|b[3] == 0 }

var fullSet = bitset{^uint64(0), ^uint64(0), ^uint64(0), ^uint64(0)}

const maxVars = 6

// varsOf returns the free variables of t (nil,false if more than maxVars or a UF occurs).
func (c *termCtx) varsOf(t *Term) ([]*Term, bool) {
	if t.varsDone {
		return t.vars, t.varsOK
	}
	t.varsDone = true
	switch {
	case t.konst:
		t.varsOK = true
	case t.op == "var":
		t.vars = []*Term{t}
		t.varsOK = true
	case len(t.op) > 3 && t.op[:3] == "uf:":
		t.varsOK = false
	default:
		var acc []*Term
		ok := true
		for _, a := range t.args {
			vs, aok := c.varsOf(a)
			if !aok {
				ok = false
				break
			}
			for _, v := range vs {
				dup := false
				for _, u := range acc {
					if u == v {
						dup = true
						break
					}
				}
				if !dup {
					acc = append(acc, v)
				}
			}
			if len(acc) > maxVars {
				ok = false
				break
			}
		}
		t.varsOK = ok
		if ok {
			t.vars = acc
		}
	}
	return t.vars, t.varsOK
}

// set8 returns the set of values of the single 8-bit variable of boolean term t
// for which t is true.
func (c *termCtx) set8(t *Term) (*bitset, *Term, bool) {
	if t.set != nil {
		return t.set, t.vars[0], true
	}
	if t.setFail {
		return nil, nil, false
	}
	vs, ok := c.varsOf(t)
	if !ok || len(vs) != 1 || vs[0].sort.k != sBV || vs[0].sort.w != 8 || t.sort.k != sBool || t.size > 3000 {
		t.setFail = true
		return nil, nil, false
	}
	x := vs[0]
	var s bitset
	prog := compileTerm(t)
	if prog == nil {
		t.setFail = true
		return nil, nil, false
	}
	vals := make([]uint64, len(prog.nodes))
	for v := 0; v < 256; v++ {
		if prog.run(vals, uint64(v)) == 1 {
			s[v>>6] |= 1 << uint(v&63)
		}
	}
	t.set = &s
	return t.set, x, true
}

// domState is the per-path domain information.
type domState struct {
	dom   map[*Term]*bitset
	multi map[*Term]bool
	// a conjunct with too many variables or a UF: nothing is independent
	multiAll bool
}

func newDomState() *domState {
	return &domState{dom: map[*Term]*bitset{}, multi: map[*Term]bool{}}
}

// note records conjunct t of the path condition.
func (w *world) domNote(t *Term) {
	d := w.doms
	if s, x, ok := w.tc.set8(t); ok {
		cur, has := d.dom[x]
		if !has {
			cp := *s
			d.dom[x] = &cp
		} else {
			n := cur.and(s)
			d.dom[x] = &n
		}
		return
	}
	vs, ok := w.tc.varsOf(t)
	if !ok {
		d.multiAll = true
		return
	}
	for _, v := range vs {
		d.multi[v] = true
	}
}

// independent reports whether the variables of t occur in no multi-variable
// conjunct of the path condition.
func (w *world) independent(vs []*Term) bool {
	if w.doms.multiAll {
		return false
	}
	for _, v := range vs {
		if w.doms.multi[v] {
			return false
		}
	}
	return true
}

// preFeasible tries to decide pc ∧ t without the solver.
func (w *world) preFeasible(t *Term) (satResult, bool) {
	if w.ex.noPresolve {
		return rUnknown, false
	}
	tc := w.tc
	if s, x, ok := tc.set8(t); ok {
		cur, has := w.doms.dom[x]
		var inter bitset
		if has {
			inter = cur.and(s)
		} else {
			inter = *s
		}
		if inter.empty() {
			return rUnsat, true // infeasible already under the single-variable constraints
		}
		if w.independent([]*Term{x}) {
			return rSat, true
		}
		return rUnknown, false
	}
	switch t.op {
	case "or":
		// sat iff some disjunct is; unsat iff all are
		allUnsat := true
		for _, a := range t.args {
			r, ok := w.preFeasible(a)
			if ok && r == rSat {
				return rSat, true
			}
			if !ok || r != rUnsat {
				allUnsat = false
			}
		}
		if allUnsat {
			return rUnsat, true
		}
		return rUnknown, false
	case "and":
		// any conjunct infeasible => unsat; all feasible and pairwise variable-disjoint
		// and independent => sat
		seen := map[*Term]bool{}
		exact := true
		for _, a := range t.args {
			r, ok := w.preFeasible(a)
			if ok && r == rUnsat {
				return rUnsat, true
			}
			if !ok {
				exact = false
				continue
			}
			vs, vok := tc.varsOf(a)
			if !vok || !w.independent(vs) {
				exact = false
				continue
			}
			for _, v := range vs {
				if seen[v] {
					exact = false
				}
				seen[v] = true
			}
		}
		if exact {
			return rSat, true
		}
		return rUnknown, false
	case "not":
		a := t.args[0]
		switch a.op {
		case "and":
			ns := make([]*Term, len(a.args))
			for i, x := range a.args {
				ns[i] = tc.Not(x)
			}
			return w.preFeasible(tc.Or(ns...))
		case "or":
			ns := make([]*Term, len(a.args))
			for i, x := range a.args {
				ns[i] = tc.Not(x)
			}
			return w.preFeasible(tc.And(ns...))
		}
	}
	return rUnknown, false
}

// termProg is a term DAG flattened in post-order for repeated evaluation over
// one variable.
type termProg struct {
	nodes []*Term
	args  [][]int
}

func compileTerm(t *Term) *termProg {
	p := &termProg{}
	idx := map[int]int{}
	ok := true
	var visit func(t *Term) int
	visit = func(t *Term) int {
		if i, seen := idx[t.id]; seen {
			return i
		}
		var as []int
		for _, a := range t.args {
			as = append(as, visit(a))
		}
		if !evalSupported(t) {
			ok = false
		}
		p.nodes = append(p.nodes, t)
		p.args = append(p.args, as)
		idx[t.id] = len(p.nodes) - 1
		return len(p.nodes) - 1
	}
	visit(t)
	if !ok {
		return nil
	}
	return p
}

func evalSupported(t *Term) bool {
	if t.sort.k == sInt {
		return false
	}
	for _, a := range t.args {
		if a.sort.k == sInt {
			return false
		}
	}
	switch t.op {
	case "const", "var", "not", "and", "or", "ite", "=", "bvneg", "bvnot",
		"bvult", "bvule", "bvugt", "bvuge", "bvslt", "bvsle", "bvsgt", "bvsge",
		"bvadd", "bvsub", "bvmul", "bvand", "bvor", "bvxor", "bvshl", "bvlshr", "bvashr",
		"bvudiv", "bvurem", "bvsdiv", "bvsrem":
		return true
	}
	if len(t.op) > 3 && t.op[:3] == "(_ " {
		return t.op[3] == 'z' || t.op[3] == 's' || t.op[3] == 'e'
	}
	return false
}

// run evaluates the program with its single variable set to x.
func (p *termProg) run(vals []uint64, x uint64) uint64 {
	for i, t := range p.nodes {
		a := p.args[i]
		var r uint64
		switch t.op {
		case "const":
			r = t.cv
		case "var":
			r = x
		case "not":
			r = vals[a[0]] ^ 1
		case "and":
			r = 1
			for _, j := range a {
				r &= vals[j]
			}
		case "or":
			r = 0
			for _, j := range a {
				r |= vals[j]
			}
		case "ite":
			if vals[a[0]] == 1 {
				r = vals[a[1]]
			} else {
				r = vals[a[2]]
			}
		case "=":
			if vals[a[0]] == vals[a[1]] {
				r = 1
			}
		case "bvneg":
			r = (-vals[a[0]]) & mask(t.sort.w)
		case "bvnot":
			r = (^vals[a[0]]) & mask(t.sort.w)
		default:
			if len(a) == 2 {
				w := t.args[0].sort.w
				xv, yv := vals[a[0]], vals[a[1]]
				sx, sy := signExt(xv, w), signExt(yv, w)
				b := func(c bool) uint64 {
					if c {
						return 1
					}
					return 0
				}
				switch t.op {
				case "bvult":
					r = b(xv < yv)
				case "bvule":
					r = b(xv <= yv)
				case "bvugt":
					r = b(xv > yv)
				case "bvuge":
					r = b(xv >= yv)
				case "bvslt":
					r = b(sx < sy)
				case "bvsle":
					r = b(sx <= sy)
				case "bvsgt":
					r = b(sx > sy)
				case "bvsge":
					r = b(sx >= sy)
				case "bvadd":
					r = (xv + yv) & mask(w)
				case "bvsub":
					r = (xv - yv) & mask(w)
				case "bvmul":
					r = (xv * yv) & mask(w)
				case "bvand":
					r = xv & yv
				case "bvor":
					r = xv | yv
				case "bvxor":
					r = xv ^ yv
				case "bvshl":
					if yv < uint64(w) {
						r = (xv << yv) & mask(w)
					}
				case "bvlshr":
					if yv < uint64(w) {
						r = xv >> yv
					}
				case "bvashr":
					if yv >= uint64(w) {
						yv = uint64(w - 1)
					}
					r = uint64(sx>>yv) & mask(w)
				case "bvudiv":
					if yv == 0 {
						r = mask(w)
					} else {
						r = xv / yv
					}
				case "bvurem":
					if yv == 0 {
						r = xv
					} else {
						r = xv % yv
					}
				case "bvsdiv":
					switch {
					case yv == 0:
						if sx < 0 {
							r = 1
						} else {
							r = mask(w)
						}
					case sy == -1:
						r = uint64(-sx) & mask(w)
					default:
						r = uint64(sx/sy) & mask(w)
					}
				case "bvsrem":
					switch {
					case yv == 0:
						r = xv
					case sy == -1:
						r = 0
					default:
						r = uint64(sx%sy) & mask(w)
					}
				}
			} else {
				// extensions / extract
				aw := t.args[0].sort.w
				v := vals[a[0]]
				switch t.op[3] {
				case 'z':
					r = v
				case 's':
					r = uint64(signExt(v, aw)) & mask(t.sort.w)
				case 'e':
					r = v & mask(t.sort.w)
				}
			}
		}
		vals[i] = r
	}
	return vals[len(vals)-1]
}
