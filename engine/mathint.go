package main

// Mathematical integers for the decimal model. In harness Go they have the
// static type *big.Int (verifMI); under the executor a value of that type is a
// mathInt (an SMT Int term). The model stores the coefficient of an
// apd.BigInt in the BigInt's first field slot.

import (
	"fmt"
	"go/types"
	"math/big"

	"golang.org/x/tools/go/ssa"
)

func (w *world) miOf(v value) *Term {
	switch v := v.(type) {
	case mathInt:
		return v.t
	case *value:
		if v == nil {
			return w.tc.IntI(0)
		}
		// a concrete *big.Int built by interpreted code: {neg bool, abs []Word}
		if st, ok := (*v).(structure); ok && len(st) == 2 {
			if neg, ok := st[0].(bool); ok {
				if abs, ok := st[1].([]value); ok {
					r := new(big.Int)
					for i := len(abs) - 1; i >= 0; i-- {
						r.Lsh(r, 64)
						r.Or(r, new(big.Int).SetUint64(uint64(asInt64(abs[i]))))
					}
					if neg {
						r.Neg(r)
					}
					return w.tc.Int(r)
				}
			}
		}
	}
	panic(unsupported(fmt.Sprintf("mathematical integer expected, got %T", v)))
}

func init() {
	mi := func(t *Term) value { return mathInt{t} }
	bin := func(op string) intrinsicFn {
		return func(w *world, _ *frame, _ *ssa.Function, args []value) value {
			return mi(w.tc.IntBin(op, w.miOf(args[0]), w.miOf(args[1])))
		}
	}
	cmp := func(op string) intrinsicFn {
		return func(w *world, _ *frame, _ *ssa.Function, args []value) value {
			return mkValue(types.Bool, w.tc.IntCmp(op, w.miOf(args[0]), w.miOf(args[1])))
		}
	}
	add := map[string]intrinsicFn{
		"verifMIConst": func(w *world, _ *frame, _ *ssa.Function, args []value) value {
			if s, ok := args[0].(symv); ok {
				_, signed := kindWidth(s.k)
				return mi(w.tc.BV2Int(s.t, signed))
			}
			return mi(w.tc.IntI(asInt64(args[0])))
		},
		"verifMIFromUint64": func(w *world, _ *frame, _ *ssa.Function, args []value) value {
			if s, ok := args[0].(symv); ok {
				return mi(w.tc.BV2Int(s.t, false))
			}
			return mi(w.tc.Int(new(big.Int).SetUint64(uint64(asInt64(args[0])))))
		},
		"verifMIFromString": func(w *world, _ *frame, _ *ssa.Function, args []value) value {
			r, ok := new(big.Int).SetString(concString(args[0], "integer literal"), 10)
			if !ok {
				panic(unsupported("verifMIFromString: bad literal"))
			}
			return mi(w.tc.Int(r))
		},
		"verifMIAdd": bin("+"),
		"verifMISub": bin("-"),
		"verifMIMul": bin("*"),
		// Euclidean division (as math/big Div/Mod and SMT-LIB div/mod); the
		// divisor must be non-zero (callers check).
		"verifMIDivE": bin("div"),
		"verifMIModE": bin("mod"),
		"verifMINeg": func(w *world, _ *frame, _ *ssa.Function, args []value) value {
			return mi(w.tc.IntNeg(w.miOf(args[0])))
		},
		"verifMIAbs": func(w *world, _ *frame, _ *ssa.Function, args []value) value {
			t := w.miOf(args[0])
			return mi(w.tc.Ite(w.tc.IntCmp("<", t, w.tc.IntI(0)), w.tc.IntNeg(t), t))
		},
		"verifMILt": cmp("<"),
		"verifMILe": cmp("<="),
		"verifMIEq": func(w *world, _ *frame, _ *ssa.Function, args []value) value {
			return mkValue(types.Bool, w.tc.Eq(w.miOf(args[0]), w.miOf(args[1])))
		},
		"verifMIIte": func(w *world, _ *frame, _ *ssa.Function, args []value) value {
			return mi(w.tc.Ite(w.termOf(args[0]), w.miOf(args[1]), w.miOf(args[2])))
		},
		"verifMIPow10": func(w *world, _ *frame, _ *ssa.Function, args []value) value {
			k, ok := w.concInt(args[0], 0, 400)
			if !ok {
				panic(unsupported("verifMIPow10: exponent out of the modelled range 0..400"))
			}
			return mi(w.tc.Int(new(big.Int).Exp(big.NewInt(10), big.NewInt(k), nil)))
		},
		// verifMIFresh(tag): an arbitrary mathematical integer input.
		"verifMIFresh": func(w *world, _ *frame, _ *ssa.Function, args []value) value {
			tag := concString(args[0], "tag")
			if w.ex.replay != nil {
				in := w.nextReplay("mathint")
				r, _ := new(big.Int).SetString(in.V, 10)
				if r == nil {
					r = new(big.Int)
				}
				return mi(w.tc.Int(r))
			}
			t := w.tc.Var(w.freshName(tag, "!int"), intSort)
			w.inputs = append(w.inputs, inputRec{Kind: "mathint", Tag: tag, terms: []*Term{t}})
			return mi(t)
		},
		// verifMIToInt64: two's complement truncation to 64 bits.
		"verifMIToInt64": func(w *world, _ *frame, _ *ssa.Function, args []value) value {
			return mkValue(types.Int64, w.tc.Int2BV(w.miOf(args[0]), 64))
		},
		// verifMIToInt64InRange: the caller has established -2^63 <= a < 2^63 on this path.
		"verifMIToInt64InRange": func(w *world, _ *frame, _ *ssa.Function, args []value) value {
			return mkValue(types.Int64, w.tc.Int2BVExact(w.miOf(args[0]), 64))
		},
		"verifMIToUint64": func(w *world, _ *frame, _ *ssa.Function, args []value) value {
			return mkValue(types.Uint64, w.tc.Int2BV(w.miOf(args[0]), 64))
		},
		// verifMIDigits forks over the number of decimal digits of |a| (0 for a == 0),
		// up to max; more digits than max leaves the model (unsupported).
		"verifMIDigits": func(w *world, _ *frame, _ *ssa.Function, args []value) value {
			t := w.miOf(args[0])
			max := int(asInt64(args[1]))
			tc := w.tc
			abs := tc.Ite(tc.IntCmp("<", t, tc.IntI(0)), tc.IntNeg(t), t)
			if abs.konst {
				if abs.iv.Sign() == 0 {
					return 0
				}
				return len(abs.iv.String())
			}
			pow := func(k int) *Term { return tc.Int(new(big.Int).Exp(big.NewInt(10), big.NewInt(int64(k)), nil)) }
			c := w.chooseLazy(max+2, func(i int) *Term {
				switch {
				case i == 0:
					return tc.Eq(abs, tc.IntI(0))
				case i == max+1:
					return tc.IntCmp(">=", abs, pow(max))
				}
				return tc.And(tc.IntCmp(">=", abs, pow(i-1)), tc.IntCmp("<", abs, pow(i)))
			}, func(i int) bool {
				// no value with more than i digits is possible: stop enumerating
				return w.feasible(tc.IntCmp(">=", abs, pow(i))) == rUnsat
			})
			if c == max+1 {
				panic(unsupported(fmt.Sprintf("decimal model: coefficient with more than %d digits", max)))
			}
			return c
		},
		"verifMIString": func(w *world, _ *frame, _ *ssa.Function, args []value) value {
			t := w.miOf(args[0])
			if !t.konst {
				return "<symbolic integer>"
			}
			return t.iv.String()
		},
		"verifUnsupported": func(w *world, _ *frame, _ *ssa.Function, args []value) value {
			panic(unsupported(concString(args[0], "message")))
		},
		// verifMIDigitsSym: the digit count as a symbolic int64 (ite chain), 1 for zero.
		"verifMIDigitsSym": func(w *world, _ *frame, _ *ssa.Function, args []value) value {
			t := w.miOf(args[0])
			max := int(asInt64(args[1]))
			tc := w.tc
			abs := tc.Ite(tc.IntCmp("<", t, tc.IntI(0)), tc.IntNeg(t), t)
			pow := func(k int) *Term { return tc.Int(new(big.Int).Exp(big.NewInt(10), big.NewInt(int64(k)), nil)) }
			r := tc.BV(64, uint64(max+1))
			for i := max; i >= 1; i-- {
				r = tc.Ite(tc.IntCmp("<", abs, pow(i)), tc.BV(64, uint64(i)), r)
			}
			return mkValue(types.Int64, r)
		},
		// model slot access
		"verifMIOf": func(w *world, _ *frame, _ *ssa.Function, args []value) value {
			p := args[0].(*value)
			if p == nil {
				panic(targetPanicMsg("runtime error: invalid memory address or nil pointer dereference"))
			}
			st := (*p).(structure)
			if m, ok := st[0].(mathInt); ok {
				return m
			}
			if ip, ok := st[0].(*value); ok && ip == nil {
				// zero BigInt; the inline words must be zero too
				return mi(w.tc.IntI(0))
			}
			panic(unsupported("apd.BigInt not created by the decimal model"))
		},
		"verifMISet": func(w *world, _ *frame, _ *ssa.Function, args []value) value {
			p := args[0].(*value)
			if p == nil {
				panic(targetPanicMsg("runtime error: invalid memory address or nil pointer dereference"))
			}
			st := (*p).(structure)
			st[0] = mathInt{w.miOf(args[1])}
			return nil
		},
	}
	for k, v := range add {
		intrinsics[k] = v
	}
}
