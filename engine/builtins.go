package main

import (
	"bytes"
	"fmt"
	"go/types"
	"os"

	"golang.org/x/tools/go/ssa"
)

// callBuiltin interprets a call to builtin fn with arguments args,
// returning its result. (From x/tools interp, extended for symbolic values.)
func (w *world) callBuiltin(caller *frame, fn *ssa.Builtin, args []value) value {
	switch fn.Name() {
	case "append":
		if len(args) == 1 {
			return args[0]
		}
		if isStringVal(args[1]) {
			// append([]byte, ...string) []byte
			arg0 := args[0].([]value)
			return append(arg0, strBytes(args[1])...)
		}
		// append([]T, ...[]T) []T
		return append(args[0].([]value), args[1].([]value)...)

	case "copy": // copy([]T, []T) int or copy([]byte, string) int
		src := args[1]
		if isStringVal(src) {
			src = strBytes(src)
		}
		dst := args[0].([]value)
		if w.inInit == 0 {
			n := len(dst)
			if l := len(src.([]value)); l < n {
				n = l
			}
			for i := 0; i < n; i++ {
				w.undo = append(w.undo, undoRec{&dst[i], dst[i]})
			}
		}
		return copy(dst, src.([]value))

	case "close": // close(chan T)
		w.chanClose(args[0])
		return nil

	case "delete": // delete(map[K]value, K)
		switch m := args[0].(type) {
		case *omap:
			w.logMap(m)
			m.delete(w, args[1])
		default:
			panic(fmt.Sprintf("illegal map type: %T", m))
		}
		return nil

	case "clear":
		switch m := args[0].(type) {
		case *omap:
			if m != nil {
				w.logMap(m)
				m.entries = nil
				m.index = make(map[any]int)
				m.symIdx = nil
				m.n = 0
			}
		case []value:
			var elt types.Type
			if sl, ok := fn.Type().(*types.Signature).Params().At(0).Type().Underlying().(*types.Slice); ok {
				elt = sl.Elem()
			}
			for i := range m {
				w.logWrite(&m[i])
				m[i] = zero(elt)
			}
		}
		return nil

	case "print", "println": // print(any, ...)
		ln := fn.Name() == "println"
		var buf bytes.Buffer
		for i, arg := range args {
			if i > 0 && ln {
				buf.WriteRune(' ')
			}
			buf.WriteString(toString(arg))
		}
		if ln {
			buf.WriteRune('\n')
		}
		if w.ex.verbose {
			os.Stderr.Write(buf.Bytes())
		}
		return nil

	case "len":
		switch x := args[0].(type) {
		case string:
			return len(x)
		case symstr:
			return len(x.b)
		case array:
			return len(x)
		case *value:
			return len((*x).(array))
		case []value:
			return len(x)
		case *omap:
			return x.len()
		case *schan:
			if x == nil {
				return 0
			}
			return len(x.buf)
		default:
			panic(fmt.Sprintf("len: illegal operand: %T", x))
		}

	case "cap":
		switch x := args[0].(type) {
		case array:
			return cap(x)
		case *value:
			return cap((*x).(array))
		case []value:
			return cap(x)
		case *schan:
			if x == nil {
				return 0
			}
			return x.capacity
		default:
			panic(fmt.Sprintf("cap: illegal operand: %T", x))
		}

	case "min":
		return foldLeft(w.minmax(true), args)
	case "max":
		return foldLeft(w.minmax(false), args)

	case "real":
		switch c := args[0].(type) {
		case complex64:
			return real(c)
		case complex128:
			return real(c)
		default:
			panic(fmt.Sprintf("real: illegal operand: %T", c))
		}

	case "imag":
		switch c := args[0].(type) {
		case complex64:
			return imag(c)
		case complex128:
			return imag(c)
		default:
			panic(fmt.Sprintf("imag: illegal operand: %T", c))
		}

	case "complex":
		switch f := args[0].(type) {
		case float32:
			return complex(f, args[1].(float32))
		case float64:
			return complex(f, args[1].(float64))
		default:
			panic(fmt.Sprintf("complex: illegal operand: %T", f))
		}

	case "panic":
		// ssa.Panic handles most cases; this is only for "go
		// panic" or "defer panic".
		panic(targetPanic{args[0]})

	case "recover":
		return doRecover(caller)

	case "ssa:wrapnilchk":
		recv := args[0]
		if recv.(*value) == nil {
			recvType := args[1]
			methodName := args[2]
			panic(targetPanicMsg(fmt.Sprintf("value method (%s).%s called using nil *%s pointer",
				recvType, methodName, recvType)))
		}
		return recv

	case "ssa:deferstack":
		return &caller.defers

	case "String": // unsafe.String(ptr *byte, len)
		p, _ := args[0].(*value)
		n, ok := w.concInt(args[1], 0, 1<<30)
		if !ok {
			panic(targetPanicMsg("unsafe.String: len out of range"))
		}
		if n == 0 {
			return ""
		}
		if sl := w.sliceFromData(p, int(n)); sl != nil {
			return mkString(sl)
		}
		chain := ""
		for c, k := caller, 0; c != nil && k < 5; c, k = c.caller, k+1 {
			chain += " <- " + c.fn.String()
		}
		panic(unsupported("unsafe.String on untracked pointer" + chain))

	case "SliceData":
		sl := args[0].([]value)
		if cap(sl) == 0 {
			return (*value)(nil)
		}
		sl = sl[:1]
		w.sliceData[&sl[0]] = args[0].([]value)[:cap(args[0].([]value))]
		return &sl[0]

	case "StringData":
		b := strBytes(args[0])
		if len(b) == 0 {
			return (*value)(nil)
		}
		cp := make([]value, len(b))
		copy(cp, b)
		w.sliceData[&cp[0]] = cp
		return &cp[0]

	case "Slice": // unsafe.Slice(ptr, len)
		p, _ := args[0].(*value)
		n, ok := w.concInt(args[1], 0, 1<<30)
		if !ok {
			panic(targetPanicMsg("unsafe.Slice: len out of range"))
		}
		if p == nil {
			return []value(nil)
		}
		if sl := w.sliceFromData(p, int(n)); sl != nil {
			return sl
		}
		panic(unsupported("unsafe.Slice on untracked pointer"))
	}

	panic(unsupported("unknown built-in: " + fn.Name()))
}

func (w *world) sliceFromData(p *value, n int) []value {
	if p == nil {
		return nil
	}
	if sl, ok := w.sliceData[p]; ok && n <= len(sl) {
		return sl[:n]
	}
	return nil
}

func (w *world) minmax(isMin bool) func(x, y value) value {
	return func(x, y value) value {
		if !isSym(x) && !isSym(y) {
			if isMin {
				return min(x, y)
			}
			return max(x, y)
		}
		if isStringVal(x) {
			panic(unsupported("min/max on symbolic strings"))
		}
		k, _ := kindOf(x)
		_, signed := kindWidth(k)
		xt, yt := w.termOf(x), w.termOf(y)
		op := "bvult"
		if signed {
			op = "bvslt"
		}
		lt := w.tc.BVCmp(op, xt, yt)
		if isMin {
			return mkValue(k, w.tc.Ite(lt, xt, yt))
		}
		return mkValue(k, w.tc.Ite(lt, yt, xt))
	}
}
