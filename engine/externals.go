package main

// Environment: native fast paths for pure stdlib functions on concrete data,
// shadow implementations of assembly-backed leaves on symbolic data, opaque
// formatting, no-op synchronisation, unicode classification as uninterpreted
// functions with ASCII axioms.

import (
	"bytes"
	"encoding/json"
	"fmt"
	"go/types"
	"math"
	"math/bits"
	"path"
	"reflect"
	"strconv"
	"strings"
	"unicode"
	"unicode/utf8"

	"golang.org/x/tools/go/ssa"
)

type externalFn func(w *world, caller *frame, fn *ssa.Function, args []value) (value, bool)

var externals = map[string]externalFn{}

// ---- generic native calls through reflection --------------------------------

var nativeFuncs = map[string]any{
	"strings.Index": strings.Index, "strings.IndexByte": strings.IndexByte, "strings.IndexRune": strings.IndexRune,
	"strings.IndexAny": strings.IndexAny, "strings.LastIndex": strings.LastIndex, "strings.LastIndexByte": strings.LastIndexByte,
	"strings.Contains": strings.Contains, "strings.ContainsRune": strings.ContainsRune, "strings.ContainsAny": strings.ContainsAny,
	"strings.Count": strings.Count, "strings.HasPrefix": strings.HasPrefix, "strings.HasSuffix": strings.HasSuffix,
	"strings.Repeat": strings.Repeat, "strings.ToLower": strings.ToLower, "strings.ToUpper": strings.ToUpper,
	"strings.TrimSpace": strings.TrimSpace, "strings.Trim": strings.Trim, "strings.TrimLeft": strings.TrimLeft,
	"strings.TrimRight": strings.TrimRight, "strings.TrimPrefix": strings.TrimPrefix, "strings.TrimSuffix": strings.TrimSuffix,
	"strings.Split": strings.Split, "strings.SplitN": strings.SplitN, "strings.Join": strings.Join, "strings.Fields": strings.Fields,
	"strings.Replace": strings.Replace, "strings.ReplaceAll": strings.ReplaceAll, "strings.EqualFold": strings.EqualFold,
	"strings.Compare": strings.Compare, "strings.Title": strings.Title,
	"bytes.Index": bytes.Index, "bytes.IndexByte": bytes.IndexByte, "bytes.Equal": bytes.Equal, "bytes.Compare": bytes.Compare,
	"bytes.HasPrefix": bytes.HasPrefix, "bytes.HasSuffix": bytes.HasSuffix, "bytes.Count": bytes.Count, "bytes.Contains": bytes.Contains,
	"bytes.IndexAny": bytes.IndexAny, "bytes.LastIndexByte": bytes.LastIndexByte,
	"strconv.Itoa": strconv.Itoa, "strconv.FormatInt": strconv.FormatInt, "strconv.FormatUint": strconv.FormatUint,
	"strconv.Quote": strconv.Quote, "strconv.QuoteToASCII": strconv.QuoteToASCII, "strconv.IsPrint": strconv.IsPrint, "strconv.IsGraphic": strconv.IsGraphic,
	"strconv.FormatFloat": strconv.FormatFloat, "strconv.AppendInt": strconv.AppendInt, "strconv.AppendQuote": strconv.AppendQuote,
	"strconv.QuoteRune": strconv.QuoteRune, "strconv.AppendQuoteRune": strconv.AppendQuoteRune, "strconv.CanBackquote": strconv.CanBackquote,
	"unicode.IsLetter": unicode.IsLetter, "unicode.IsDigit": unicode.IsDigit, "unicode.IsSpace": unicode.IsSpace,
	"unicode.IsUpper": unicode.IsUpper, "unicode.IsLower": unicode.IsLower, "unicode.IsPrint": unicode.IsPrint,
	"unicode.IsGraphic": unicode.IsGraphic, "unicode.IsControl": unicode.IsControl, "unicode.IsPunct": unicode.IsPunct,
	"unicode.ToLower": unicode.ToLower, "unicode.ToUpper": unicode.ToUpper, "unicode.SimpleFold": unicode.SimpleFold, "unicode.IsNumber": unicode.IsNumber,
	"unicode.IsSymbol": unicode.IsSymbol, "unicode.IsMark": unicode.IsMark, "unicode.IsTitle": unicode.IsTitle,
	"unicode/utf8.RuneLen": utf8.RuneLen, "unicode/utf8.ValidString": utf8.ValidString, "unicode/utf8.Valid": utf8.Valid,
	"unicode/utf8.RuneCountInString": utf8.RuneCountInString, "unicode/utf8.RuneCount": utf8.RuneCount, "unicode/utf8.ValidRune": utf8.ValidRune,
	"unicode/utf8.DecodeRuneInString": utf8.DecodeRuneInString, "unicode/utf8.DecodeRune": utf8.DecodeRune,
	"unicode/utf8.DecodeLastRuneInString": utf8.DecodeLastRuneInString, "unicode/utf8.DecodeLastRune": utf8.DecodeLastRune,
	"unicode/utf8.FullRune": utf8.FullRune, "unicode/utf8.FullRuneInString": utf8.FullRuneInString, "unicode/utf8.RuneStart": utf8.RuneStart,
	"unicode/utf8.AppendRune": utf8.AppendRune,
	"path.Clean":              path.Clean, "path.Base": path.Base, "path.Dir": path.Dir, "path.Ext": path.Ext, "path.IsAbs": path.IsAbs, "path.Join": path.Join,
	"math.Float64bits": math.Float64bits, "math.Float64frombits": math.Float64frombits, "math.Float32bits": math.Float32bits,
	"math.Float32frombits": math.Float32frombits, "math.IsNaN": math.IsNaN, "math.IsInf": math.IsInf, "math.Inf": math.Inf, "math.NaN": math.NaN,
	"math.Abs": math.Abs, "math.Floor": math.Floor, "math.Ceil": math.Ceil, "math.Sqrt": math.Sqrt, "math.Log": math.Log, "math.Exp": math.Exp,
	"math.Log2": math.Log2, "math.Log10": math.Log10, "math.Pow": math.Pow, "math.Trunc": math.Trunc, "math.Mod": math.Mod, "math.Ldexp": math.Ldexp,
	"math.Copysign": math.Copysign, "math.Signbit": math.Signbit, "math.Max": math.Max, "math.Min": math.Min,
	"math/bits.Len": bits.Len, "math/bits.Len64": bits.Len64, "math/bits.Len32": bits.Len32, "math/bits.LeadingZeros64": bits.LeadingZeros64,
	"math/bits.TrailingZeros": bits.TrailingZeros, "math/bits.TrailingZeros64": bits.TrailingZeros64, "math/bits.OnesCount64": bits.OnesCount64,
	"math/bits.TrailingZeros32": bits.TrailingZeros32, "math/bits.LeadingZeros32": bits.LeadingZeros32, "math/bits.LeadingZeros": bits.LeadingZeros,
	"math/bits.OnesCount": bits.OnesCount, "math/bits.OnesCount32": bits.OnesCount32, "math/bits.Len8": bits.Len8, "math/bits.Len16": bits.Len16,
	"math/bits.Mul64": bits.Mul64, "math/bits.Add64": bits.Add64, "math/bits.Sub64": bits.Sub64, "math/bits.Div64": bits.Div64,
	"math/bits.Mul": bits.Mul, "math/bits.Add": bits.Add, "math/bits.Sub": bits.Sub,
	"internal/bytealg.IndexByteString": strings.IndexByte, "internal/bytealg.IndexByte": bytes.IndexByte,
	"internal/bytealg.CountString": func(s string, c byte) int { return strings.Count(s, string([]byte{c})) },
	"internal/bytealg.Count":       func(b []byte, c byte) int { return bytes.Count(b, []byte{c}) },
	"internal/bytealg.IndexString": strings.Index, "internal/bytealg.Index": bytes.Index,
	"internal/bytealg.Compare": bytes.Compare, "internal/bytealg.Equal": bytes.Equal,
	"internal/bytealg.LastIndexByteString": strings.LastIndexByte, "internal/bytealg.LastIndexByte": bytes.LastIndexByte,
	"internal/stringslite.Index": strings.Index, "internal/stringslite.IndexByte": strings.IndexByte,
	"internal/stringslite.HasPrefix": strings.HasPrefix, "internal/stringslite.HasSuffix": strings.HasSuffix,
}

var (
	tByteSlice   = reflect.TypeOf([]byte(nil))
	tStringSlice = reflect.TypeOf([]string(nil))
)

func toReflect(v value, t reflect.Type) (reflect.Value, bool) {
	switch t.Kind() {
	case reflect.String:
		if s, ok := v.(string); ok {
			return reflect.ValueOf(s).Convert(t), true
		}
	case reflect.Bool, reflect.Int, reflect.Int8, reflect.Int16, reflect.Int32, reflect.Int64,
		reflect.Uint, reflect.Uint8, reflect.Uint16, reflect.Uint32, reflect.Uint64, reflect.Uintptr,
		reflect.Float32, reflect.Float64:
		if isSym(v) || v == nil {
			return reflect.Value{}, false
		}
		rv := reflect.ValueOf(v)
		if rv.Type().ConvertibleTo(t) && rv.Kind() == t.Kind() {
			return rv.Convert(t), true
		}
	case reflect.Slice:
		sl, ok := v.([]value)
		if !ok {
			return reflect.Value{}, false
		}
		if sl == nil {
			return reflect.Zero(t), true
		}
		out := reflect.MakeSlice(t, len(sl), len(sl))
		for i, e := range sl {
			ev, ok := toReflect(e, t.Elem())
			if !ok {
				return reflect.Value{}, false
			}
			out.Index(i).Set(ev)
		}
		return out, true
	}
	return reflect.Value{}, false
}

func fromReflect(rv reflect.Value) (value, bool) {
	switch rv.Kind() {
	case reflect.String:
		return rv.String(), true
	case reflect.Bool:
		return rv.Bool(), true
	case reflect.Int:
		return int(rv.Int()), true
	case reflect.Int8:
		return int8(rv.Int()), true
	case reflect.Int16:
		return int16(rv.Int()), true
	case reflect.Int32:
		return int32(rv.Int()), true
	case reflect.Int64:
		return rv.Int(), true
	case reflect.Uint:
		return uint(rv.Uint()), true
	case reflect.Uint8:
		return uint8(rv.Uint()), true
	case reflect.Uint16:
		return uint16(rv.Uint()), true
	case reflect.Uint32:
		return uint32(rv.Uint()), true
	case reflect.Uint64:
		return rv.Uint(), true
	case reflect.Uintptr:
		return uintptr(rv.Uint()), true
	case reflect.Float32:
		return float32(rv.Float()), true
	case reflect.Float64:
		return rv.Float(), true
	case reflect.Slice:
		if rv.IsNil() {
			return []value(nil), true
		}
		out := make([]value, rv.Len())
		for i := range out {
			e, ok := fromReflect(rv.Index(i))
			if !ok {
				return nil, false
			}
			out[i] = e
		}
		return out, true
	}
	return nil, false
}

func nativeCall(f any) externalFn {
	rf := reflect.ValueOf(f)
	rt := rf.Type()
	return func(w *world, _ *frame, fn *ssa.Function, args []value) (value, bool) {
		if rt.IsVariadic() || rt.NumIn() != len(args) {
			return nil, false
		}
		in := make([]reflect.Value, len(args))
		for i, a := range args {
			v, ok := toReflect(a, rt.In(i))
			if !ok {
				return nil, false
			}
			in[i] = v
		}
		out := rf.Call(in)
		switch len(out) {
		case 0:
			return nil, true
		case 1:
			return fromReflect(out[0])
		}
		t := make(tuple, len(out))
		for i, o := range out {
			v, ok := fromReflect(o)
			if !ok {
				return nil, false
			}
			t[i] = v
		}
		return t, true
	}
}

// ---- shadows on symbolic data ------------------------------------------------

func bytesOf(v value) ([]value, bool) {
	switch v := v.(type) {
	case string, symstr:
		return strBytes(v), true
	case []value:
		return v, true
	}
	return nil, false
}

// indexByte forks over the position of the first occurrence.
func (w *world) indexByte(s []value, c value) int {
	ct := w.termOf(c)
	for i, b := range s {
		if w.branch(w.tc.Eq(w.termOf(b), ct)) {
			return i
		}
	}
	return -1
}

func (w *world) lastIndexByte(s []value, c value) int {
	ct := w.termOf(c)
	for i := len(s) - 1; i >= 0; i-- {
		if w.branch(w.tc.Eq(w.termOf(s[i]), ct)) {
			return i
		}
	}
	return -1
}

// indexSeq returns the first index of sep in s, forking as needed.
func (w *world) indexSeq(s, sep []value) int {
	n := len(sep)
	if n == 0 {
		return 0
	}
	for i := 0; i+n <= len(s); i++ {
		cs := make([]*Term, n)
		for j := 0; j < n; j++ {
			cs[j] = w.tc.Eq(w.termOf(s[i+j]), w.termOf(sep[j]))
		}
		if w.branch(w.tc.And(cs...)) {
			return i
		}
	}
	return -1
}

func (w *world) compareSeq(a, b []value) value {
	// returns -1,0,+1 as an ite term (no fork)
	tc := w.tc
	n := len(a)
	if len(b) < n {
		n = len(b)
	}
	var tail int64
	switch {
	case len(a) < len(b):
		tail = -1
	case len(a) > len(b):
		tail = 1
	}
	r := tc.BV(64, uint64(tail))
	for i := n - 1; i >= 0; i-- {
		x, y := w.termOf(a[i]), w.termOf(b[i])
		r = tc.Ite(tc.BVCmp("bvult", x, y), tc.BV(64, ^uint64(0)), tc.Ite(tc.Eq(x, y), r, tc.BV(64, 1)))
	}
	return mkValue(types.Int, r)
}

func (w *world) hasPrefixTerm(s, p []value) *Term {
	if len(p) > len(s) {
		return w.tc.ff
	}
	cs := make([]*Term, len(p))
	for i := range p {
		cs[i] = w.tc.Eq(w.termOf(s[i]), w.termOf(p[i]))
	}
	return w.tc.And(cs...)
}

func (w *world) countByte(s []value, c value) value {
	tc := w.tc
	ct := w.termOf(c)
	r := tc.BV(64, 0)
	for _, b := range s {
		r = tc.BVBin("bvadd", r, tc.Ite(tc.Eq(w.termOf(b), ct), tc.BV(64, 1), tc.BV(64, 0)))
	}
	return mkValue(types.Int, r)
}

// tableTerm builds the exact membership predicate of a unicode.RangeTable
// (the same tables the real unicode package consults) for the rune term t.
func (w *world) tableTerm(t *Term, tabs ...*unicode.RangeTable) *Term {
	tc := w.tc
	var alts []*Term
	add := func(lo, hi, stride uint32) {
		in := rng(tc, t, lo, hi)
		if stride > 1 {
			off := tc.BVBin("bvsub", t, tc.BV(32, uint64(lo)))
			in = tc.And(in, tc.Eq(tc.BVBin("bvurem", off, tc.BV(32, uint64(stride))), tc.BV(32, 0)))
		}
		alts = append(alts, in)
	}
	for _, tab := range tabs {
		for _, r := range tab.R16 {
			add(uint32(r.Lo), uint32(r.Hi), uint32(r.Stride))
		}
		for _, r := range tab.R32 {
			add(r.Lo, r.Hi, r.Stride)
		}
	}
	return tc.Or(alts...)
}

var classTables = map[string][]*unicode.RangeTable{
	"unicode.IsLetter":  {unicode.Letter},
	"unicode.IsDigit":   {unicode.Digit},
	"unicode.IsNumber":  {unicode.Number},
	"unicode.IsUpper":   {unicode.Upper},
	"unicode.IsLower":   {unicode.Lower},
	"unicode.IsSpace":   {unicode.White_Space},
	"unicode.IsControl": {unicode.Cc},
}

// classUF classifies a symbolic rune: exactly, from the real Unicode tables,
// where a table exists (cached per rune term); strconv.IsPrint/IsGraphic and
// unicode.IsPrint/IsGraphic stay uninterpreted beyond ASCII (with fixed points).
func (w *world) classUF(name string, r symv, limit uint32, low func(t *Term) *Term) value {
	tc := w.tc
	_, signed := kindWidth(r.k)
	t := tc.Resize(r.t, 32, signed)
	if tabs, ok := classTables[name]; ok {
		key := name + "#" + strconv.Itoa(t.id)
		if c, hit := w.classCache[key]; hit {
			return mkValue(types.Bool, c)
		}
		c := w.tableTerm(t, tabs...)
		w.classCache[key] = c
		return mkValue(types.Bool, c)
	}
	inLow := tc.And(tc.BVCmp("bvsge", t, tc.BV(32, 0)), tc.BVCmp("bvslt", t, tc.BV(32, uint64(limit))))
	uf := tc.App("uf_"+name, boolSort, t)
	w.ufUsed(name)
	// fixed points of the real tables that the code under test mentions by
	// value: U+FEFF (BOM, Cf) and U+FFFD (replacement char, So), and the
	// non-code-points (surrogates, > U+10FFFF), which belong to no class.
	printable := strings.HasSuffix(name, "IsPrint") || strings.HasSuffix(name, "IsGraphic")
	c := func(v uint32) *Term { return tc.BV(32, uint64(v)) }
	nonCP := tc.Or(rng(tc, t, 0xD800, 0xDFFF), tc.BVCmp("bvugt", t, c(0x10FFFF)))
	uf = tc.Ite(tc.Eq(t, c(0xFFFD)), tc.Bool(printable), tc.And(uf, tc.Not(tc.Eq(t, c(0xFEFF))), tc.Not(nonCP)))
	return mkValue(types.Bool, tc.Ite(inLow, low(t), uf))
}

func (w *world) ufUsed(name string) {
	w.ex.mu.Lock()
	w.ex.ufs[name] = true
	w.ex.mu.Unlock()
}

func rng(tc *termCtx, t *Term, lo, hi uint32) *Term {
	return tc.And(tc.BVCmp("bvuge", t, tc.BV(32, uint64(lo))), tc.BVCmp("bvule", t, tc.BV(32, uint64(hi))))
}

func init() {
	for name, f := range nativeFuncs {
		externals[name] = nativeCall(f)
	}
	symFirst := func(name string, sym externalFn) {
		nat := externals[name]
		externals[name] = func(w *world, c *frame, fn *ssa.Function, args []value) (value, bool) {
			if nat != nil {
				if r, ok := nat(w, c, fn, args); ok {
					return r, true
				}
			}
			return sym(w, c, fn, args)
		}
	}
	idxByte := func(w *world, _ *frame, _ *ssa.Function, args []value) (value, bool) {
		s, ok := bytesOf(args[0])
		if !ok {
			return nil, false
		}
		return w.indexByte(s, args[1]), true
	}
	lastIdxByte := func(w *world, _ *frame, _ *ssa.Function, args []value) (value, bool) {
		s, ok := bytesOf(args[0])
		if !ok {
			return nil, false
		}
		return w.lastIndexByte(s, args[1]), true
	}
	idxSeq := func(w *world, _ *frame, _ *ssa.Function, args []value) (value, bool) {
		s, ok1 := bytesOf(args[0])
		p, ok2 := bytesOf(args[1])
		if !ok1 || !ok2 {
			return nil, false
		}
		return w.indexSeq(s, p), true
	}
	cmpSeq := func(w *world, _ *frame, _ *ssa.Function, args []value) (value, bool) {
		s, ok1 := bytesOf(args[0])
		p, ok2 := bytesOf(args[1])
		if !ok1 || !ok2 {
			return nil, false
		}
		return w.compareSeq(s, p), true
	}
	eqSeq := func(w *world, _ *frame, _ *ssa.Function, args []value) (value, bool) {
		s, ok1 := bytesOf(args[0])
		p, ok2 := bytesOf(args[1])
		if !ok1 || !ok2 {
			return nil, false
		}
		if len(s) != len(p) {
			return false, true
		}
		return mkValue(types.Bool, w.hasPrefixTerm(s, p)), true
	}
	hasPrefix := func(w *world, _ *frame, _ *ssa.Function, args []value) (value, bool) {
		s, ok1 := bytesOf(args[0])
		p, ok2 := bytesOf(args[1])
		if !ok1 || !ok2 {
			return nil, false
		}
		return mkValue(types.Bool, w.hasPrefixTerm(s, p)), true
	}
	hasSuffix := func(w *world, _ *frame, _ *ssa.Function, args []value) (value, bool) {
		s, ok1 := bytesOf(args[0])
		p, ok2 := bytesOf(args[1])
		if !ok1 || !ok2 {
			return nil, false
		}
		if len(p) > len(s) {
			return false, true
		}
		return mkValue(types.Bool, w.hasPrefixTerm(s[len(s)-len(p):], p)), true
	}
	cntByte := func(w *world, _ *frame, _ *ssa.Function, args []value) (value, bool) {
		s, ok := bytesOf(args[0])
		if !ok {
			return nil, false
		}
		return w.countByte(s, args[1]), true
	}
	for _, n := range []string{"internal/bytealg.IndexByteString", "internal/bytealg.IndexByte", "strings.IndexByte", "bytes.IndexByte", "internal/stringslite.IndexByte"} {
		symFirst(n, idxByte)
	}
	for _, n := range []string{"internal/bytealg.LastIndexByteString", "internal/bytealg.LastIndexByte", "strings.LastIndexByte", "bytes.LastIndexByte"} {
		symFirst(n, lastIdxByte)
	}
	for _, n := range []string{"internal/bytealg.IndexString", "internal/bytealg.Index", "strings.Index", "bytes.Index", "internal/stringslite.Index"} {
		symFirst(n, idxSeq)
	}
	for _, n := range []string{"internal/bytealg.Compare", "bytes.Compare", "strings.Compare"} {
		symFirst(n, cmpSeq)
	}
	for _, n := range []string{"internal/bytealg.Equal", "bytes.Equal"} {
		symFirst(n, eqSeq)
	}
	for _, n := range []string{"strings.HasPrefix", "bytes.HasPrefix", "internal/stringslite.HasPrefix"} {
		symFirst(n, hasPrefix)
	}
	for _, n := range []string{"strings.HasSuffix", "bytes.HasSuffix", "internal/stringslite.HasSuffix"} {
		symFirst(n, hasSuffix)
	}
	for _, n := range []string{"internal/bytealg.CountString", "internal/bytealg.Count"} {
		symFirst(n, cntByte)
	}
	symFirst("strings.Contains", func(w *world, _ *frame, _ *ssa.Function, args []value) (value, bool) {
		s, ok1 := bytesOf(args[0])
		p, ok2 := bytesOf(args[1])
		if !ok1 || !ok2 {
			return nil, false
		}
		return w.indexSeq(s, p) >= 0, true
	})
	symFirst("unicode/utf8.DecodeRuneInString", func(w *world, _ *frame, _ *ssa.Function, args []value) (value, bool) {
		if strLen(args[0]) == 0 {
			return tuple{rune(utf8.RuneError), 0}, true
		}
		r, sz := w.decodeRune(args[0], 0)
		return tuple{r, sz}, true
	})
	symFirst("unicode/utf8.DecodeRune", func(w *world, _ *frame, _ *ssa.Function, args []value) (value, bool) {
		b := args[0].([]value)
		if len(b) == 0 {
			return tuple{rune(utf8.RuneError), 0}, true
		}
		r, sz := w.decodeRune(symstr{b}, 0)
		return tuple{r, sz}, true
	})
	symFirst("unicode/utf8.ValidString", func(w *world, _ *frame, _ *ssa.Function, args []value) (value, bool) {
		return w.validUTF8(strBytes(args[0])), true
	})
	symFirst("unicode/utf8.Valid", func(w *world, _ *frame, _ *ssa.Function, args []value) (value, bool) {
		return w.validUTF8(args[0].([]value)), true
	})
	symFirst("unicode/utf8.RuneLen", func(w *world, _ *frame, _ *ssa.Function, args []value) (value, bool) {
		r, ok := args[0].(symv)
		if !ok {
			return nil, false
		}
		tc := w.tc
		t := r.t
		c := func(v uint32) *Term { return tc.BV(32, uint64(v)) }
		i := func(v int64) *Term { return tc.BV(64, uint64(v)) }
		neg := tc.BVCmp("bvslt", t, c(0))
		res := tc.Ite(neg, i(-1),
			tc.Ite(tc.BVCmp("bvult", t, c(0x80)), i(1),
				tc.Ite(tc.BVCmp("bvult", t, c(0x800)), i(2),
					tc.Ite(rng(tc, t, 0xD800, 0xDFFF), i(-1),
						tc.Ite(tc.BVCmp("bvult", t, c(0x10000)), i(3),
							tc.Ite(tc.BVCmp("bvule", t, c(0x10FFFF)), i(4), i(-1)))))))
		return mkValue(types.Int, res), true
	})
	symFirst("unicode/utf8.AppendRune", func(w *world, _ *frame, _ *ssa.Function, args []value) (value, bool) {
		r, ok := args[1].(symv)
		if !ok {
			return nil, false
		}
		return append(args[0].([]value), strBytes(w.runeToString(r))...), true
	})
	symFirst("unicode/utf8.ValidRune", func(w *world, _ *frame, _ *ssa.Function, args []value) (value, bool) {
		r, ok := args[0].(symv)
		if !ok {
			return nil, false
		}
		tc := w.tc
		t := r.t
		return mkValue(types.Bool, tc.And(tc.BVCmp("bvsge", t, tc.BV(32, 0)), tc.BVCmp("bvsle", t, tc.BV(32, 0x10FFFF)), tc.Not(rng(tc, t, 0xD800, 0xDFFF)))), true
	})

	// unicode.SimpleFold: exact on ASCII and on the two non-ASCII members of
	// ASCII orbits (U+212A KELVIN SIGN, U+017F LONG S); uninterpreted elsewhere.
	symFirst("unicode.SimpleFold", func(w *world, _ *frame, _ *ssa.Function, args []value) (value, bool) {
		r, ok := args[0].(symv)
		if !ok {
			return nil, false
		}
		tc := w.tc
		t := r.t
		c := func(v uint32) *Term { return tc.BV(32, uint64(v)) }
		uf := tc.App("uf_unicode.SimpleFold", bvSort(32), t)
		w.ufUsed("unicode.SimpleFold")
		lowerCase := tc.Ite(tc.Eq(t, c('k')), c(0x212A), tc.Ite(tc.Eq(t, c('s')), c(0x17F), tc.BVBin("bvsub", t, c(32))))
		res := tc.Ite(rng(tc, t, 'A', 'Z'), tc.BVBin("bvadd", t, c(32)),
			tc.Ite(rng(tc, t, 'a', 'z'), lowerCase,
				tc.Ite(tc.BVCmp("bvult", t, c(0x80)), t,
					tc.Ite(tc.Eq(t, c(0x212A)), c('K'),
						tc.Ite(tc.Eq(t, c(0x17F)), c('S'), uf)))))
		return mkValue(types.Int32, res), true
	})

	// unicode classification: ASCII/Latin-1 exact, the rest uninterpreted
	letterLow := func(tc *termCtx) func(t *Term) *Term {
		return func(t *Term) *Term { return tc.Or(rng(tc, t, 'A', 'Z'), rng(tc, t, 'a', 'z')) }
	}
	uf := func(name string, limit uint32, low func(tc *termCtx) func(t *Term) *Term) {
		symFirst(name, func(w *world, _ *frame, _ *ssa.Function, args []value) (value, bool) {
			r, ok := args[0].(symv)
			if !ok {
				return nil, false
			}
			return w.classUF(name, r, limit, low(w.tc)), true
		})
	}
	uf("unicode.IsLetter", 0x80, letterLow)
	uf("unicode.IsDigit", 0x80, func(tc *termCtx) func(t *Term) *Term {
		return func(t *Term) *Term { return rng(tc, t, '0', '9') }
	})
	uf("unicode.IsNumber", 0x80, func(tc *termCtx) func(t *Term) *Term {
		return func(t *Term) *Term { return rng(tc, t, '0', '9') }
	})
	uf("unicode.IsUpper", 0x80, func(tc *termCtx) func(t *Term) *Term {
		return func(t *Term) *Term { return rng(tc, t, 'A', 'Z') }
	})
	uf("unicode.IsLower", 0x80, func(tc *termCtx) func(t *Term) *Term {
		return func(t *Term) *Term { return rng(tc, t, 'a', 'z') }
	})
	uf("unicode.IsSpace", 0x100, func(tc *termCtx) func(t *Term) *Term {
		return func(t *Term) *Term {
			return tc.Or(rng(tc, t, '\t', '\r'), tc.Eq(t, tc.BV(32, ' ')), tc.Eq(t, tc.BV(32, 0x85)), tc.Eq(t, tc.BV(32, 0xA0)))
		}
	})
	uf("unicode.IsControl", 0x100, func(tc *termCtx) func(t *Term) *Term {
		return func(t *Term) *Term { return tc.Or(rng(tc, t, 0, 0x1F), rng(tc, t, 0x7F, 0x9F)) }
	})
	uf("strconv.IsPrint", 0x80, func(tc *termCtx) func(t *Term) *Term {
		return func(t *Term) *Term { return rng(tc, t, 0x20, 0x7E) }
	})
	uf("unicode.IsPrint", 0x80, func(tc *termCtx) func(t *Term) *Term {
		return func(t *Term) *Term { return rng(tc, t, 0x20, 0x7E) }
	})
	uf("strconv.IsGraphic", 0x80, func(tc *termCtx) func(t *Term) *Term {
		return func(t *Term) *Term { return rng(tc, t, 0x20, 0x7E) }
	})
	uf("unicode.IsGraphic", 0x80, func(tc *termCtx) func(t *Term) *Term {
		return func(t *Term) *Term { return rng(tc, t, 0x20, 0x7E) }
	})

	// ---- synchronisation: single-threaded model, all no-ops ------------------
	noop := func(w *world, _ *frame, _ *ssa.Function, args []value) (value, bool) { return nil, true }
	for _, n := range []string{
		"(*sync.Mutex).Lock", "(*sync.Mutex).Unlock", "(*sync.RWMutex).Lock", "(*sync.RWMutex).Unlock",
		"(*sync.RWMutex).RLock", "(*sync.RWMutex).RUnlock", "(*sync.WaitGroup).Add", "(*sync.WaitGroup).Done",
		"(*sync.Cond).Signal", "(*sync.Cond).Broadcast",
		"runtime.KeepAlive", "runtime.SetFinalizer", "runtime.GC", "runtime.Gosched", "(*strings.Builder).copyCheck",
		"internal/race.Acquire", "internal/race.Release", "internal/race.ReleaseMerge", "internal/race.Disable", "internal/race.Enable",
		"internal/race.Read", "internal/race.Write", "internal/race.ReadRange", "internal/race.WriteRange",
		"sync.runtime_registerPoolCleanup", "sync.runtime_procUnpin",
	} {
		externals[n] = noop
	}
	// strings are immutable values in the executor: a clone is the string itself
	// (the real code builds it through unsafe.String(&b[0], n))
	for _, n := range []string{"internal/stringslite.Clone", "strings.Clone"} {
		externals[n] = func(w *world, _ *frame, _ *ssa.Function, args []value) (value, bool) { return args[0], true }
	}
	// json.Marshal of a concrete string, bool or []byte (the real code goes
	// through reflection); anything else, or symbolic content, is unsupported.
	jsonMarshal := func(escapeHTML bool) externalFn {
		return func(w *world, _ *frame, _ *ssa.Function, args []value) (value, bool) {
			itf, ok := args[0].(iface)
			if !ok {
				return nil, false
			}
			var gv any
			switch x := itf.v.(type) {
			case string:
				gv = x
			case bool:
				gv = x
			case []value:
				bs := make([]byte, len(x))
				for i, e := range x {
					b, isB := e.(byte)
					if !isB {
						panic(unsupported("json.Marshal of symbolic bytes"))
					}
					bs[i] = b
				}
				gv = bs
			case symstr:
				// symbolic content: bytes that encoding/json copies unchanged
				// (printable ASCII other than the quote, the backslash and,
				// with HTML escaping, < > &) stay symbolic; a byte that may
				// need escaping takes the path out of the model.
				r := []value{byte('"')}
				tc := w.tc
				for _, e := range x.b {
					if cb, isB := e.(byte); isB {
						if cb < 0x20 || cb >= 0x7f || cb == '"' || cb == '\\' || (escapeHTML && (cb == '<' || cb == '>' || cb == '&')) {
							panic(unsupported("json.Marshal model: concrete byte needing escape next to symbolic content"))
						}
						r = append(r, cb)
						continue
					}
					t := w.termOf(e)
					safe := tc.And(tc.BVCmp("bvuge", t, tc.BV(8, 0x20)), tc.BVCmp("bvult", t, tc.BV(8, 0x7f)),
						tc.Not(tc.Eq(t, tc.BV(8, '"'))), tc.Not(tc.Eq(t, tc.BV(8, '\\'))))
					if escapeHTML {
						safe = tc.And(safe, tc.Not(tc.Eq(t, tc.BV(8, '<'))), tc.Not(tc.Eq(t, tc.BV(8, '>'))), tc.Not(tc.Eq(t, tc.BV(8, '&'))))
					}
					if !w.branch(safe) {
						panic(unsupported("json.Marshal of a symbolic byte that needs escaping"))
					}
					r = append(r, e)
				}
				r = append(r, byte('"'))
				return tuple{r, iface{}}, true
			default:
				panic(unsupported(fmt.Sprintf("json.Marshal of %T (reflection)", itf.v)))
			}
			var buf bytes.Buffer
			enc := json.NewEncoder(&buf)
			enc.SetEscapeHTML(escapeHTML)
			if err := enc.Encode(gv); err != nil {
				panic(unsupported("json.Marshal model: " + err.Error()))
			}
			out := bytes.TrimSuffix(buf.Bytes(), []byte("\n"))
			r := make([]value, len(out))
			for i, b := range out {
				r[i] = b
			}
			return tuple{r, iface{}}, true
		}
	}
	externals["encoding/json.Marshal"] = jsonMarshal(true)
	externals["cuelang.org/go/internal/encoding/json.Marshal"] = jsonMarshal(false)
	externals["(*sync.Mutex).TryLock"] = func(w *world, _ *frame, _ *ssa.Function, args []value) (value, bool) { return true, true }
	externals["(*sync.WaitGroup).Wait"] = func(w *world, _ *frame, _ *ssa.Function, args []value) (value, bool) {
		// run all pending goroutines (order explored)
		for w.runOnePending() {
		}
		return nil, true
	}
	externals["(*sync.Once).Do"] = func(w *world, c *frame, _ *ssa.Function, args []value) (value, bool) {
		p := args[0].(*value)
		if w.onceDone[p] {
			return nil, true
		}
		w.onceDone[p] = true
		w.call(c, 0, args[1], nil)
		return nil, true
	}
	externals["(*sync.Once).doSlow"] = externals["(*sync.Once).Do"]
	externals["(*sync.Pool).Get"] = func(w *world, c *frame, _ *ssa.Function, args []value) (value, bool) {
		p := args[0].(*value)
		st := (*p).(structure)
		// New is the last field
		newFn := st[len(st)-1]
		switch f := newFn.(type) {
		case *ssa.Function:
			if f == nil {
				return iface{}, true
			}
		case *closure:
			if f == nil {
				return iface{}, true
			}
		}
		return w.call(c, 0, newFn, nil), true
	}
	externals["(*sync.Pool).Put"] = noop

	// sync/atomic on boxed cells
	for _, ty := range []string{"Int32", "Int64", "Uint32", "Uint64", "Uintptr", "Pointer"} {
		ty := ty
		externals["sync/atomic.Load"+ty] = func(w *world, _ *frame, _ *ssa.Function, args []value) (value, bool) {
			return *(args[0].(*value)), true
		}
		externals["sync/atomic.Store"+ty] = func(w *world, _ *frame, _ *ssa.Function, args []value) (value, bool) {
			w.logWrite(args[0].(*value))
			*(args[0].(*value)) = args[1]
			return nil, true
		}
		externals["sync/atomic.Swap"+ty] = func(w *world, _ *frame, _ *ssa.Function, args []value) (value, bool) {
			p := args[0].(*value)
			old := *p
			w.logWrite(p)
			*p = args[1]
			return old, true
		}
		externals["sync/atomic.CompareAndSwap"+ty] = func(w *world, _ *frame, fn *ssa.Function, args []value) (value, bool) {
			p := args[0].(*value)
			eq := w.eqTerm(fn.Signature.Params().At(1).Type(), *p, args[1])
			if w.branch(eq) {
				w.logWrite(p)
				*p = args[2]
				return true, true
			}
			return false, true
		}
		if ty != "Pointer" {
			externals["sync/atomic.Add"+ty] = func(w *world, _ *frame, fn *ssa.Function, args []value) (value, bool) {
				p := args[0].(*value)
				w.logWrite(p)
				*p = w.binop(tokenADD, fn.Signature.Params().At(1).Type(), *p, args[1])
				return *p, true
			}
		}
	}

	// ---- formatting: opaque ----------------------------------------------------
	externals["fmt.Sprintf"] = func(w *world, _ *frame, _ *ssa.Function, args []value) (value, bool) {
		f, _ := args[0].(string)
		return "<fmt.Sprintf " + f + ">", true
	}
	externals["fmt.Sprint"] = func(w *world, _ *frame, _ *ssa.Function, args []value) (value, bool) { return "<fmt.Sprint>", true }
	externals["fmt.Sprintln"] = func(w *world, _ *frame, _ *ssa.Function, args []value) (value, bool) { return "<fmt.Sprintln>\n", true }
	externals["fmt.Errorf"] = func(w *world, c *frame, _ *ssa.Function, args []value) (value, bool) {
		f, _ := args[0].(string)
		en := w.prog.ImportedPackage("errors")
		if en == nil {
			return nil, false
		}
		return w.callSSA(c, 0, en.Func("New"), []value{"<fmt.Errorf " + f + ">"}, nil), true
	}
	for _, n := range []string{"fmt.Fprintf", "fmt.Fprint", "fmt.Fprintln", "fmt.Printf", "fmt.Println", "fmt.Print"} {
		externals[n] = func(w *world, _ *frame, _ *ssa.Function, args []value) (value, bool) {
			return tuple{0, iface{}}, true
		}
	}
	for _, n := range []string{"log.Printf", "log.Println", "log.Print", "log.SetFlags", "log.SetPrefix", "log.SetOutput", "(*log.Logger).SetFlags", "(*log.Logger).Printf", "(*log.Logger).Println", "(*log.Logger).Print"} {
		externals[n] = noop
	}
	externals["os.Getenv"] = func(w *world, _ *frame, _ *ssa.Function, args []value) (value, bool) { return "", true }
	externals["os.LookupEnv"] = func(w *world, _ *frame, _ *ssa.Function, args []value) (value, bool) { return tuple{"", false}, true }
	externals["internal/bytealg.MakeNoZero"] = func(w *world, _ *frame, _ *ssa.Function, args []value) (value, bool) {
		n, ok := w.concInt(args[0], 0, 1<<24)
		if !ok {
			return nil, false
		}
		sl := make([]value, n)
		for i := range sl {
			sl[i] = byte(0)
		}
		return sl, true
	}
	externals["(*strings.Builder).String"] = func(w *world, _ *frame, _ *ssa.Function, args []value) (value, bool) {
		p := args[0].(*value)
		st := (*p).(structure)
		buf, _ := st[1].([]value)
		return mkString(buf), true
	}
	externals["runtime.Caller"] = func(w *world, _ *frame, _ *ssa.Function, args []value) (value, bool) {
		return tuple{uintptr(0), "", 0, false}, true
	}
	externals["runtime.Callers"] = func(w *world, _ *frame, _ *ssa.Function, args []value) (value, bool) { return 0, true }
	externals["runtime.GOMAXPROCS"] = func(w *world, _ *frame, _ *ssa.Function, args []value) (value, bool) { return 1, true }
	externals["runtime.NumCPU"] = func(w *world, _ *frame, _ *ssa.Function, args []value) (value, bool) { return 1, true }
	externals["internal/godebug.New"] = nil
}

// validUTF8 builds a (forking) validity decision for a byte sequence.
func (w *world) validUTF8(b []value) value {
	allc := true
	for _, e := range b {
		if _, ok := e.(byte); !ok {
			allc = false
		}
	}
	if allc {
		bs := make([]byte, len(b))
		for i, e := range b {
			bs[i] = e.(byte)
		}
		return utf8.Valid(bs)
	}
	s := symstr{b}
	for i := 0; i < len(b); {
		r, sz := w.decodeRune(s, i)
		if sz == 1 {
			// RuneError of width 1 means invalid (a genuine U+FFFD has width 3)
			if rc, ok := r.(rune); ok && rc == utf8.RuneError {
				return false
			}
		}
		i += sz
	}
	return true
}

var _ = fmt.Sprint

// envflag.Parse/Init configure flag structs by reflection from struct tags and
// an environment variable. The model: the environment variable is unset, so
// every field takes the default of its `envflag:"default:..."` tag.
func init() {
	setDefaults := func(w *world, fn *ssa.Function, args []value) (value, bool) {
		p, ok := args[0].(*value)
		if !ok || p == nil {
			return nil, false
		}
		pt, ok := fn.Signature.Params().At(0).Type().Underlying().(*types.Pointer)
		if !ok {
			return nil, false
		}
		st, ok := pt.Elem().Underlying().(*types.Struct)
		if !ok {
			return nil, false
		}
		fields := (*p).(structure)
		for i := 0; i < st.NumFields(); i++ {
			tag := reflect.StructTag(st.Tag(i)).Get("envflag")
			for _, f := range strings.Split(tag, ",") {
				key, rest, _ := strings.Cut(f, ":")
				if key != "default" {
					continue
				}
				switch b := st.Field(i).Type().Underlying().(*types.Basic); {
				case b != nil && b.Kind() == types.Bool:
					fields[i] = rest == "true"
				case b != nil && b.Kind() == types.Int:
					n, _ := strconv.Atoi(rest)
					fields[i] = n
				case b != nil && b.Kind() == types.String:
					fields[i] = rest
				}
			}
		}
		return iface{}, true // nil error
	}
	envflagExt := func(w *world, _ *frame, fn *ssa.Function, args []value) (value, bool) {
		return setDefaults(w, fn, args)
	}
	genericExternals = append(genericExternals, genericExternal{prefix: "cuelang.org/go/internal/envflag.Init[", fn: envflagExt})
	genericExternals = append(genericExternals, genericExternal{prefix: "cuelang.org/go/internal/envflag.Parse[", fn: envflagExt})
}

// genericExternals match instantiations of generic functions by name prefix.
type genericExternal struct {
	prefix string
	fn     externalFn
}

var genericExternals []genericExternal

// cueexperiment.parseConfig[T] sets experiment flags from struct tags by
// reflection; modelled natively (same life-cycle rules; error cases abort as
// unsupported).
func init() {
	cmpVer := func(a, b string) int {
		pa, pb := strings.Split(strings.TrimPrefix(a, "v"), "."), strings.Split(strings.TrimPrefix(b, "v"), ".")
		for i := 0; i < 3; i++ {
			var x, y int
			if i < len(pa) {
				x, _ = strconv.Atoi(strings.SplitN(pa[i], "-", 2)[0])
			}
			if i < len(pb) {
				y, _ = strconv.Atoi(strings.SplitN(pb[i], "-", 2)[0])
			}
			if x != y {
				if x < y {
					return -1
				}
				return 1
			}
		}
		return 0
	}
	genericExternals = append(genericExternals, genericExternal{prefix: "cuelang.org/go/internal/cueexperiment.parseConfig[", fn: func(w *world, c *frame, fn *ssa.Function, args []value) (value, bool) {
		p, ok := args[0].(*value)
		if !ok || p == nil {
			return nil, false
		}
		version, ok := args[1].(string)
		if !ok {
			return nil, false
		}
		if version == "" {
			lv := w.prog.ImportedPackage("cuelang.org/go/internal/cueversion")
			if lv == nil {
				return nil, false
			}
			version, _ = w.callSSA(c, 0, lv.Func("LanguageVersion"), nil, nil).(string)
		}
		exps, _ := args[2].(*omap)
		st := fn.Signature.Params().At(0).Type().Underlying().(*types.Pointer).Elem().Underlying().(*types.Struct)
		fields := (*p).(structure)
		for i := 0; i < st.NumFields(); i++ {
			tag, ok := reflect.StructTag(st.Tag(i)).Lookup("experiment")
			if !ok {
				continue
			}
			name := strings.ToLower(st.Field(i).Name())
			enabled, has := false, false
			if exps != nil {
				if v, ok := exps.lookup(w, name); ok {
					enabled, has = v.(bool), true
					exps.delete(w, name)
				}
			}
			disabled := has && !enabled
			for _, f := range strings.Split(tag, ",") {
				key, rest, _ := strings.Cut(f, ":")
				switch key {
				case "preview":
					if enabled {
						if cmpVer(version, rest) < 0 {
							panic(unsupported("cueexperiment: experiment set before its preview version"))
						}
						fields[i] = true
					}
				case "default":
					if cmpVer(version, rest) >= 0 && !disabled {
						fields[i] = true
					}
				case "stable":
					if cmpVer(version, rest) >= 0 {
						fields[i] = true
					}
					if disabled {
						panic(unsupported("cueexperiment: stable experiment disabled"))
					}
				case "withdrawn":
					if cmpVer(version, rest) >= 0 && enabled {
						panic(unsupported("cueexperiment: withdrawn experiment enabled"))
					}
				}
			}
		}
		if exps != nil && exps.len() > 0 {
			panic(unsupported("cueexperiment: unknown experiment name"))
		}
		return iface{}, true
	}})
}

// errors.Is / errors.As use internal/reflectlite; modelled natively over the
// interpreter's interface values (same chain walk: the error itself, its
// Is/As method, Unwrap() error, Unwrap() []error).
func init() {
	method := func(w *world, t types.Type, name string) *ssa.Function {
		ms := w.prog.MethodSets.MethodSet(t)
		for i := 0; i < ms.Len(); i++ {
			if ms.At(i).Obj().Name() == name {
				return w.prog.MethodValue(ms.At(i))
			}
		}
		return nil
	}
	comparable := func(t types.Type) bool { return types.Comparable(t) }
	var is func(w *world, c *frame, err, target iface, depth int) bool
	is = func(w *world, c *frame, err, target iface, depth int) bool {
		if depth > 100 {
			panic(unsupported("errors.Is: chain too deep"))
		}
		for err.t != nil {
			if target.t != nil && comparable(target.t) && sameType(err.t, target.t) {
				if w.branch(w.eqTerm(err.t, err.v, target.v)) {
					return true
				}
			}
			if m := method(w, err.t, "Is"); m != nil && m.Signature.Params().Len() == 1 {
				if r, ok := w.callSSA(c, 0, m, []value{err.v, target}, nil).(bool); ok && r {
					return true
				}
			}
			m := method(w, err.t, "Unwrap")
			if m == nil || m.Signature.Results().Len() != 1 {
				return false
			}
			switch r := w.callSSA(c, 0, m, []value{err.v}, nil).(type) {
			case iface:
				err = r
			case []value:
				for _, e := range r {
					if ei, ok := e.(iface); ok && is(w, c, ei, target, depth+1) {
						return true
					}
				}
				return false
			default:
				return false
			}
		}
		return target.t == nil
	}
	externals["errors.Is"] = func(w *world, c *frame, _ *ssa.Function, args []value) (value, bool) {
		err, target := args[0].(iface), args[1].(iface)
		if err.t == nil || target.t == nil {
			return err.t == nil && target.t == nil, true
		}
		return is(w, c, err, target, 0), true
	}
	var as func(w *world, c *frame, err iface, target iface, T types.Type, ptr *value, depth int) bool
	as = func(w *world, c *frame, err iface, target iface, T types.Type, ptr *value, depth int) bool {
		if depth > 100 {
			panic(unsupported("errors.As: chain too deep"))
		}
		for err.t != nil {
			if types.AssignableTo(err.t, T) {
				if _, isIface := T.Underlying().(*types.Interface); isIface {
					*ptr = err
				} else {
					*ptr = err.v
				}
				return true
			}
			if m := method(w, err.t, "As"); m != nil && m.Signature.Params().Len() == 1 {
				if r, ok := w.callSSA(c, 0, m, []value{err.v, target}, nil).(bool); ok && r {
					return true
				}
			}
			m := method(w, err.t, "Unwrap")
			if m == nil || m.Signature.Results().Len() != 1 {
				return false
			}
			switch r := w.callSSA(c, 0, m, []value{err.v}, nil).(type) {
			case iface:
				err = r
			case []value:
				for _, e := range r {
					if ei, ok := e.(iface); ok && as(w, c, ei, target, T, ptr, depth+1) {
						return true
					}
				}
				return false
			default:
				return false
			}
		}
		return false
	}
	externals["errors.As"] = func(w *world, c *frame, _ *ssa.Function, args []value) (value, bool) {
		err, target := args[0].(iface), args[1].(iface)
		if target.t == nil {
			panic(targetPanicMsg("errors: target cannot be nil"))
		}
		pt, ok := target.t.Underlying().(*types.Pointer)
		if !ok {
			panic(targetPanicMsg("errors: target must be a non-nil pointer"))
		}
		ptr, _ := target.v.(*value)
		if ptr == nil {
			panic(targetPanicMsg("errors: target must be a non-nil pointer"))
		}
		if err.t == nil {
			return false, true
		}
		return as(w, c, err, target, pt.Elem(), ptr, 0), true
	}
}

// par.ErrCache[K,V].Do / par.Cache.Do: in-process single-flight over sync.Map;
// modelled as "call f" (single goroutine; deduplication across goroutines is
// outside the C16 claim).
func init() {
	genericExternals = append(genericExternals, genericExternal{prefix: "(*cuelang.org/go/internal/par.ErrCache[", fn: func(w *world, c *frame, fn *ssa.Function, args []value) (value, bool) {
		if fn.Name() != "Do" || len(args) != 3 {
			return nil, false
		}
		return w.call(c, 0, args[2], nil), true
	}})
}
