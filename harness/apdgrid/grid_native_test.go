package internal

import (
	"fmt"
	"testing"
)

// Native side of the contract validation: real apd vs the model, line by line.
func TestVerifApdModel(t *testing.T) {
	var api, model []string
	verifGrid(verifAPIOps(), func(s string) { api = append(api, s) })
	verifGrid(verifModelOps(), func(s string) { model = append(model, s) })
	bad := 0
	for i := range api {
		if api[i] != model[i] {
			bad++
			if bad <= 15 {
				t.Errorf("contract mismatch\n real : %s\n model: %s", api[i], model[i])
			}
		}
	}
	h := uint64(14695981039346656037)
	for _, l := range api {
		h = verifFNV(h, l+"\n")
	}
	fmt.Printf("VERIF-APD-GRID lines=%d fnv=%d mismatches=%d\n", len(api), h>>1, bad)
}
