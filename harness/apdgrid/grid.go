package internal

// Contract validation for the decimal model (DESIGN section 2.5, safeguard 1).
//
// verifGridAPI drives the apd *API* over a grid of operands. Natively that is
// the real apd; under the executor every call is redirected to the model.
// verifGridModel calls the model functions directly (native only). The native
// test demands API == model line by line; the check then demands that the
// executor's digest of verifGridAPI equals the native one.

import (
	verifapd "github.com/cockroachdb/apd/v3"
)

var verifGridCoeffs = []string{
	"0", "1", "2", "5", "9", "10", "15", "25", "49", "50", "99", "100", "1234", "995", "1005",
	"9223372036854775807", "9223372036854775808", "18446744073709551615", "18446744073709551616",
	"1000000000000000000000000000000000",   // 10^33
	"9999999999999999999999999999999999",   // 10^34-1
	"10000000000000000000000000000000000",  // 10^34
	"10000000000000000000000000000000005",  // 10^34+5
	"99999999999999999999999999999999995",  // 35 digits, rounds up with carry
	"12345678901234567890123456789012345678",
}

var verifGridExps = []int32{-3, -1, 0, 1, 2}

func verifGridDec(ci, ei int, neg bool) verifapd.Decimal {
	var d verifapd.Decimal
	d.Form = verifapd.Finite
	d.Negative = neg
	d.Exponent = verifGridExps[ei]
	verifMISet(&d.Coeff, verifMIFromString(verifGridCoeffs[ci]))
	return d
}

func verifShow(d *verifapd.Decimal) string {
	s := "+"
	if d.Negative {
		s = "-"
	}
	return s + verifMIString(verifMIOf(&d.Coeff)) + "e" + verifItoa(int(d.Exponent))
}

func verifItoa(n int) string {
	if n == 0 {
		return "0"
	}
	neg := n < 0
	if neg {
		n = -n
	}
	var b []byte
	for n > 0 {
		b = append([]byte{byte('0' + n%10)}, b...)
		n /= 10
	}
	if neg {
		return "-" + string(b)
	}
	return string(b)
}

func verifCond(c verifapd.Condition) string {
	s := ""
	if c&verifapd.Inexact != 0 {
		s += "I"
	}
	if c&verifapd.Rounded != 0 {
		s += "R"
	}
	return s
}

type verifOps struct {
	cmp       func(d, x *verifapd.Decimal) int
	sign      func(d *verifapd.Decimal) int
	numDigits func(d *verifapd.Decimal) int64
	int64     func(d *verifapd.Decimal) (int64, error)
	neg       func(d, x *verifapd.Decimal) *verifapd.Decimal
	reduce    func(d, x *verifapd.Decimal) (*verifapd.Decimal, int)
	add, sub, mul, ceil2, floor2 func(c *verifapd.Context, d, x, y *verifapd.Decimal) (verifapd.Condition, error)
	ceil, floor, rtiv, rtie func(c *verifapd.Context, d, x *verifapd.Decimal) (verifapd.Condition, error)
	bdiv, bmod, bquo, brem func(z, x, y *verifapd.BigInt) *verifapd.BigInt
	bappend func(z *verifapd.BigInt, buf []byte, base int) []byte
	bbitlen func(z *verifapd.BigInt) int
}

func verifGrid(o verifOps, emit func(string)) {
	ctx := BaseContext.Context
	type val struct{ ci, ei int; neg bool }
	var unary, binary []val
	for ci := range verifGridCoeffs {
		for ei := range verifGridExps {
			unary = append(unary, val{ci, ei, false}, val{ci, ei, true})
		}
	}
	for _, ci := range []int{0, 1, 3, 5, 7, 10, 13, 15, 20, 21, 22, 23} {
		for _, ei := range []int{0, 2, 3} {
			binary = append(binary, val{ci, ei, false}, val{ci, ei, true})
		}
	}
	for _, v := range unary {
		x := verifGridDec(v.ci, v.ei, v.neg)
		line := verifShow(&x) + ":"
		line += " sign=" + verifItoa(o.sign(&x))
		line += " nd=" + verifItoa(int(o.numDigits(&x)))
		i, err := o.int64(&x)
		if err != nil {
			line += " i64=err"
		} else {
			line += " i64=" + verifItoa(int(i))
		}
		var d verifapd.Decimal
		o.neg(&d, &x)
		line += " neg=" + verifShow(&d)
		var r verifapd.Decimal
		_, n := o.reduce(&r, &x)
		line += " red=" + verifShow(&r) + "/" + verifItoa(n)
		var c1, f1, v1, e1 verifapd.Decimal
		cc, _ := o.ceil(&ctx, &c1, &x)
		line += " ceil=" + verifShow(&c1) + verifCond(cc)
		fc, _ := o.floor(&ctx, &f1, &x)
		line += " floor=" + verifShow(&f1) + verifCond(fc)
		vc, _ := o.rtiv(&ctx, &v1, &x)
		line += " rtiv=" + verifShow(&v1) + verifCond(vc)
		ec, _ := o.rtie(&ctx, &e1, &x)
		line += " rtie=" + verifShow(&e1) + verifCond(ec&verifapd.Inexact)
		if v.ei == 0 {
			var z verifapd.BigInt
			verifMISet(&z, verifMIOf(&x.Coeff))
			if v.neg {
				verifMISet(&z, verifMINeg(verifMIOf(&x.Coeff)))
			}
			line += " digits=" + string(o.bappend(&z, []byte("#"), 10)) + " bitlen=" + verifItoa(o.bbitlen(&z))
		}
		emit(line)
	}
	for _, a := range binary {
		for _, b := range binary {
			x, y := verifGridDec(a.ci, a.ei, a.neg), verifGridDec(b.ci, b.ei, b.neg)
			line := verifShow(&x) + " " + verifShow(&y) + ":"
			line += " cmp=" + verifItoa(o.cmp(&x, &y))
			var s, m, p verifapd.Decimal
			c, _ := o.add(&ctx, &s, &x, &y)
			line += " add=" + verifShow(&s) + verifCond(c)
			c, _ = o.sub(&ctx, &m, &x, &y)
			line += " sub=" + verifShow(&m) + verifCond(c)
			c, _ = o.mul(&ctx, &p, &x, &y)
			line += " mul=" + verifShow(&p) + verifCond(c)
			emit(line)
		}
	}
	// integer division on signed coefficients
	ints := []string{"0", "1", "2", "3", "7", "10", "-1", "-2", "-3", "-7", "-10", "100000000000000000000000000000000000007", "-100000000000000000000000000000000000007"}
	for _, as := range ints {
		for _, bs := range ints {
			if bs == "0" {
				continue
			}
			var a, b, q verifapd.BigInt
			verifMISet(&a, verifMIFromString(as))
			verifMISet(&b, verifMIFromString(bs))
			line := as + " " + bs + ":"
			o.bdiv(&q, &a, &b)
			line += " div=" + verifMIString(verifMIOf(&q))
			o.bmod(&q, &a, &b)
			line += " mod=" + verifMIString(verifMIOf(&q))
			o.bquo(&q, &a, &b)
			line += " quo=" + verifMIString(verifMIOf(&q))
			o.brem(&q, &a, &b)
			line += " rem=" + verifMIString(verifMIOf(&q))
			emit(line)
		}
	}
}

func verifAPIOps() verifOps {
	return verifOps{
		cmp: (*verifapd.Decimal).Cmp, sign: (*verifapd.Decimal).Sign, numDigits: (*verifapd.Decimal).NumDigits,
		int64: (*verifapd.Decimal).Int64, neg: (*verifapd.Decimal).Neg, reduce: (*verifapd.Decimal).Reduce,
		add: (*verifapd.Context).Add, sub: (*verifapd.Context).Sub, mul: (*verifapd.Context).Mul,
		ceil: (*verifapd.Context).Ceil, floor: (*verifapd.Context).Floor,
		rtiv: (*verifapd.Context).RoundToIntegralValue, rtie: (*verifapd.Context).RoundToIntegralExact,
		bdiv: (*verifapd.BigInt).Div, bmod: (*verifapd.BigInt).Mod, bquo: (*verifapd.BigInt).Quo, brem: (*verifapd.BigInt).Rem,
		bappend: (*verifapd.BigInt).Append, bbitlen: (*verifapd.BigInt).BitLen,
	}
}

func verifModelOps() verifOps {
	return verifOps{
		cmp: verifApdCmp, sign: verifApdSign, numDigits: verifApdNumDigits,
		int64: verifApdInt64, neg: verifApdNeg, reduce: verifApdReduce,
		add: verifApdCtxAdd, sub: verifApdCtxSub, mul: verifApdCtxMul,
		ceil: verifApdCtxCeil, floor: verifApdCtxFloor,
		rtiv: verifApdCtxRoundToIntegralValue, rtie: verifApdCtxRoundToIntegralExact,
		bdiv: verifApdBigDiv, bmod: verifApdBigMod, bquo: verifApdBigQuo, brem: verifApdBigRem,
		bappend: verifApdBigAppend, bbitlen: verifApdBigBitLen,
	}
}

func verifFNV(h uint64, s string) uint64 {
	for i := 0; i < len(s); i++ {
		h ^= uint64(s[i])
		h *= 1099511628211
	}
	return h
}

// verifHarnessApdGrid: the executor runs the API grid (= the model) and
// publishes its digest; the precision read from /repo's BaseContext is part of it.
func verifHarnessApdGrid() {
	h := uint64(14695981039346656037)
	n := 0
	verifGrid(verifAPIOps(), func(line string) {
		h = verifFNV(h, line+"\n")
		n++
	})
	verifReach("grid-done")
	verifAssert(BaseContext.Precision == 34, "A06.0-precision-is-34")
	verifSample("apd-grid lines=" + verifItoa(n) + " fnv=" + verifItoa(int(h>>1)) + " precision=" + verifItoa(int(BaseContext.Precision)))
}
