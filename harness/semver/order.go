package semver

// C14 / A14.1-A14.2: Compare is a total preorder on all strings and agrees
// with SemVer 2.0 precedence.

func verifHarnessParseOnly() {
	v := verifStringUpTo(verifParam("N", 6))
	_, ok := parse(v)
	verifReach("parsed")
	verifAssert(ok == IsValid(v), "A14.0-isvalid")
}

func verifHarnessAntisym() {
	n := verifParam("N", 4)
	v := verifStringUpTo(n)
	w := verifStringUpTo(n)
	c1 := Compare(v, w)
	c2 := Compare(w, v)
	verifReach("compared")
	verifAssert(c1 == -c2, "A14.1-antisym")
	verifAssert(c1 >= -1 && c1 <= 1, "A14.1-range")
	verifAssert(Compare(v, v) == 0, "A14.1-refl")
	if !IsValid(v) {
		if IsValid(w) {
			verifAssert(c1 == -1, "A14.1-invalid-below-valid")
		} else {
			verifAssert(c1 == 0, "A14.1-invalid-equal")
		}
	}
}
