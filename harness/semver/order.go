package semver

// C14 / A14.1: Compare is a total preorder on all strings.

func verifHarnessParseOnly() {
	v := verifStringUpTo(6)
	_, ok := parse(v)
	verifReach("parsed")
	verifAssert(ok == IsValid(v), "A14.0-isvalid")
}

func verifHarnessAntisym() {
	v := verifStringUpTo(4)
	w := verifStringUpTo(4)
	c1 := Compare(v, w)
	c2 := Compare(w, v)
	verifReach("compared")
	verifAssert(c1 == -c2, "A14.1-antisym")
	verifAssert(Compare(v, v) == 0, "A14.1-refl")
}
