package semver

// C14 / A14.2: agreement of the real semver package with an independent
// reference of SemVer 2.0.0 (grammar of section 9/10, precedence of section 11),
// plus the two shorthands documented by the package (vMAJOR, vMAJOR.MINOR
// without prerelease/build).

type verifRefVer struct {
	ok   bool
	nums [3]uint64
	pre  []string
}

func verifRefIndex(s string, c byte) int {
	for i := 0; i < len(s); i++ {
		if s[i] == c {
			return i
		}
	}
	return -1
}

func verifRefSplit(s string, sep byte) []string {
	var out []string
	start := 0
	for i := 0; i < len(s); i++ {
		if s[i] == sep {
			out = append(out, s[start:i])
			start = i + 1
		}
	}
	return append(out, s[start:])
}

func verifRefAllDigits(s string) bool {
	if len(s) == 0 {
		return false
	}
	for i := 0; i < len(s); i++ {
		if s[i] < '0' || s[i] > '9' {
			return false
		}
	}
	return true
}

// numeric identifier: digits without a superfluous leading zero
func verifRefNumOK(s string) bool {
	return verifRefAllDigits(s) && (len(s) == 1 || s[0] != '0')
}

func verifRefIdentOK(s string) bool {
	if len(s) == 0 {
		return false
	}
	for i := 0; i < len(s); i++ {
		c := s[i]
		switch {
		case c >= '0' && c <= '9', c >= 'a' && c <= 'z', c >= 'A' && c <= 'Z', c == '-':
		default:
			return false
		}
	}
	return true
}

func verifRefVal(s string) uint64 {
	var v uint64
	for i := 0; i < len(s); i++ {
		v = v*10 + uint64(s[i]-'0')
	}
	return v
}

func verifRefParse(v string) (r verifRefVer) {
	if len(v) == 0 || v[0] != 'v' {
		return
	}
	rest := v[1:]
	hasBuild, hasPre := false, false
	build, pre := "", ""
	if i := verifRefIndex(rest, '+'); i >= 0 {
		hasBuild = true
		build = rest[i+1:]
		rest = rest[:i]
	}
	if i := verifRefIndex(rest, '-'); i >= 0 {
		hasPre = true
		pre = rest[i+1:]
		rest = rest[:i]
	}
	parts := verifRefSplit(rest, '.')
	if len(parts) > 3 {
		return
	}
	if len(parts) < 3 && (hasPre || hasBuild) {
		return // shorthands carry no suffix
	}
	for i, p := range parts {
		if !verifRefNumOK(p) {
			return
		}
		r.nums[i] = verifRefVal(p)
	}
	if hasPre {
		ids := verifRefSplit(pre, '.')
		for _, id := range ids {
			if !verifRefIdentOK(id) {
				return
			}
			if verifRefAllDigits(id) && !verifRefNumOK(id) {
				return
			}
		}
		r.pre = ids
	}
	if hasBuild {
		for _, id := range verifRefSplit(build, '.') {
			if !verifRefIdentOK(id) {
				return
			}
		}
	}
	r.ok = true
	return
}

func verifRefCmpU(a, b uint64) int {
	if a < b {
		return -1
	}
	if a > b {
		return 1
	}
	return 0
}

func verifRefCmpStr(a, b string) int {
	n := len(a)
	if len(b) < n {
		n = len(b)
	}
	for i := 0; i < n; i++ {
		if a[i] < b[i] {
			return -1
		}
		if a[i] > b[i] {
			return 1
		}
	}
	return verifRefCmpU(uint64(len(a)), uint64(len(b)))
}

// precedence per semver.org section 11
func verifRefCompare(a, b verifRefVer) int {
	for i := 0; i < 3; i++ {
		if c := verifRefCmpU(a.nums[i], b.nums[i]); c != 0 {
			return c
		}
	}
	if len(a.pre) == 0 && len(b.pre) == 0 {
		return 0
	}
	if len(a.pre) == 0 {
		return 1
	}
	if len(b.pre) == 0 {
		return -1
	}
	for i := 0; i < len(a.pre) && i < len(b.pre); i++ {
		x, y := a.pre[i], b.pre[i]
		nx, ny := verifRefAllDigits(x), verifRefAllDigits(y)
		var c int
		switch {
		case nx && ny:
			c = verifRefCmpU(verifRefVal(x), verifRefVal(y))
		case nx:
			c = -1
		case ny:
			c = 1
		default:
			c = verifRefCmpStr(x, y)
		}
		if c != 0 {
			return c
		}
	}
	return verifRefCmpU(uint64(len(a.pre)), uint64(len(b.pre)))
}

var verifTemplates = []string{"", "v", "v1.2.3-", "v1.2.3", "v1.0.0-a.", "v0.", "v10.2.0-1."}

// two versions sharing a concrete prefix (chosen from verifTemplates) followed
// by arbitrary bytes
func verifHarnessRefAgree() {
	n := verifParam("N", 3)
	t := verifParam("T", -1)
	if t < 0 {
		t = verifChoice(len(verifTemplates))
	}
	v := verifTemplates[t] + verifStringUpTo(n)
	w := verifTemplates[t] + verifStringUpTo(n)
	rv, rw := verifRefParse(v), verifRefParse(w)
	verifReach("parsed")
	verifAssert(IsValid(v) == rv.ok, "A14.2-valid-agrees")
	if !rv.ok || !rw.ok {
		return
	}
	verifReach("both-valid")
	got := Compare(v, w)
	verifAssert(got == verifRefCompare(rv, rw), "A14.2-compare-agrees")
	// "Two semantic versions compare equal only if their canonical formattings are identical strings."
	verifAssert((got == 0) == (Canonical(v) == Canonical(w)), "A14.2-canonical")
}

// build metadata never influences precedence
func verifHarnessBuildIgnored() {
	n := verifParam("N", 3)
	v := "v1.2.3" + verifStringUpTo(n)
	b := "+" + verifStringUpTo(2)
	verifAssume(IsValid(v))
	vb := v + b
	if !IsValid(vb) {
		return
	}
	verifReach("with-build")
	verifAssert(Compare(v, vb) == 0, "A14.2-build-ignored")
	w := "v1.2.3" + verifStringUpTo(n)
	verifAssert(Compare(v, w) == Compare(vb, w), "A14.2-build-ignored-vs-third")
}

// transitivity on triples
func verifHarnessTrans() {
	n := verifParam("N", 2)
	t := verifParam("T", -1)
	if t < 0 {
		t = verifChoice(len(verifTemplates))
	}
	a := verifTemplates[t] + verifStringUpTo(n)
	b := verifTemplates[t] + verifStringUpTo(n)
	c := verifTemplates[t] + verifStringUpTo(n)
	ab, bc, ac := Compare(a, b), Compare(b, c), Compare(a, c)
	verifReach("triple")
	if ab <= 0 && bc <= 0 {
		verifAssert(ac <= 0, "A14.1-trans")
		if ab < 0 || bc < 0 {
			verifAssert(ac < 0, "A14.1-trans-strict")
		}
	}
}
