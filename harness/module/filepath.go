package module

// C15 / A15.1: a name accepted by CheckFilePath that is also path.Clean-stable
// (the two name checks of modzip.CheckZip) can never leave the extraction
// directory and contains nothing a file system treats specially.

import (
	verifpath "path"
	veriffilepath "path/filepath"
	verifstrings "strings"
)

//verif:summarize strings.EqualFold
//verif:summarize cuelang.org/go/mod/module.fileNameOK

func verifHarnessFilePathSafe() {
	n := verifParam("N", 4)
	name := verifStringUpTo(n)
	if CheckFilePath(name) != nil || verifpath.Clean(name) != name {
		return
	}
	verifReach("accepted")
	verifAssert(len(name) > 0, "A15.1-non-empty")
	verifAssert(name[0] != '/', "A15.1-relative")
	// no empty, "." or ".." element; no separator of another platform; no control byte
	start := 0
	for i := 0; i <= len(name); i++ {
		if i == len(name) || name[i] == '/' {
			elem := name[start:i]
			verifAssert(elem != "" && elem != "." && elem != "..", "A15.1-no-dot-or-empty-element")
			start = i + 1
			continue
		}
		c := name[i]
		verifAssert(c != '\\' && c != ':' && c != 0 && c >= 0x20 && c != 0x7f, "A15.1-no-special-byte")
	}
	const dir = "/cache/mod/extract/example.com@v0.0.1"
	dst := veriffilepath.Join(dir, name)
	verifAssert(verifstrings.HasPrefix(dst, dir+"/"), "A15.1-join-stays-inside")
	verifAssert(dst == dir+"/"+name, "A15.1-join-is-concatenation")
}

