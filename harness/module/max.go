package module

// C14 / A14.3: Versions.Max returns one of its arguments, treats "none" as
// bottom and "" as top, agrees with semver.Compare otherwise, and the
// three-way comparison mvs builds from it is consistent.

import (
	verifsemver "cuelang.org/go/internal/mod/semver"
)

func verifHarnessMax() {
	n := verifParam("N", 4)
	v1 := verifStringUpTo(n)
	v2 := verifStringUpTo(n)
	m := Versions{}.Max(v1, v2)
	verifReach("max")
	verifAssert(m == v1 || m == v2, "A14.3-returns-argument")
	if v2 == "none" {
		verifAssert(m == v1, "A14.3-none-is-bottom")
	}
	if v1 == "" {
		verifAssert(m == "", "A14.3-empty-is-top")
	}
	if v1 != "" && v2 != "" && v1 != "none" && v2 != "none" {
		c := verifsemver.Compare(v1, v2)
		if c > 0 {
			verifAssert(m == v1, "A14.3-agrees-with-compare")
		}
		if c < 0 {
			verifAssert(m == v2, "A14.3-agrees-with-compare")
		}
	}
	// the comparison closure of mvs.buildList
	cmp := func(a, b string) int {
		if (Versions{}).Max(a, b) != a {
			return -1
		}
		if (Versions{}).Max(b, a) != b {
			return 1
		}
		return 0
	}
	c12, c21 := cmp(v1, v2), cmp(v2, v1)
	// Versions handed to mvs are canonical (module.NewVersion rejects others),
	// which is what makes "Max(a,b) != a" a strict comparison.
	if verifsemver.IsValid(v1) && verifsemver.IsValid(v2) && verifsemver.Canonical(v1) == v1 && verifsemver.Canonical(v2) == v2 {
		verifReach("cmp-valid")
		verifAssert(c12 == -c21, "A14.3-cmp-antisymmetric")
		verifAssert(c12 == verifsemver.Compare(v1, v2), "A14.3-cmp-is-compare")
	}
}
