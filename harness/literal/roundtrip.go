package literal

// C09 / A09.1: every quoting form the library can produce unquotes to exactly
// the original string (String forms: for valid UTF-8, which is the documented
// lossless domain; Bytes forms: for every byte sequence).

import (
	verifutf8 "unicode/utf8"
)

//verif:summarize cuelang.org/go/cue/literal.unhex

const verifNumForms = 32

func verifForm(i int) (f Form, isBytes bool) {
	f = String
	if i&1 != 0 {
		f = Bytes
		isBytes = true
	}
	switch (i >> 1) & 3 {
	case 1:
		f = f.WithTabIndent(0)
	case 2:
		f = f.WithTabIndent(1)
	case 3:
		f = f.WithOptionalTabIndent(1)
	}
	if i&8 != 0 {
		f = f.WithOptionalHashes()
	}
	if i&16 != 0 {
		f = f.WithASCIIOnly()
	}
	return f, isBytes
}

func verifHarnessQuoteRoundTrip() {
	n := verifParam("N", 3)
	fi := verifParam("F", -1)
	if fi < 0 {
		fi = verifChoice(verifNumForms)
	}
	f, isBytes := verifForm(fi)
	s := verifStringUpTo(n)
	if !isBytes {
		verifAssume(verifutf8.ValidString(s))
	}
	q := f.Quote(s)
	verifReach("quoted")
	got, err := Unquote(q)
	// known-finding region predicates (see known_findings.json)
	verifPublish("hashform-content-starts-with-two-quotes", fi&8 != 0 && len(s) >= 2 && s[0] == f.quote && s[1] == f.quote)
	verifAssert(err == nil, "A09.1-unquote-accepts-quote-output")
	verifAssert(got == s, "A09.1-roundtrip-value")
}
