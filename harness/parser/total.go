package parser

// C02 on the real parser: every source of at most N bytes either parses to a
// file or yields an ordinary error; nothing panics out of ParseFile (bailout
// panics are recovered at the API boundary), no index goes out of range, no nil
// is dereferenced, every loop terminates within the fuel bound (implicit
// assertions of the executor on every path).

func verifHarnessParseTotal() {
	n := verifParam("N", 2)
	src := verifBytesUpTo(n)
	var opts []Option
	if verifParam("COMMENTS", 1) == 1 {
		opts = append(opts, ParseComments)
	}
	f, err := ParseFile("x.cue", src, opts...)
	verifReach("returned")
	verifAssert(f != nil || err != nil, "A02.1-parser-returns-a-file-or-an-error")
	if err == nil {
		verifReach("parsed")
		// positions of the top-level declarations lie within the source
		for _, d := range f.Decls {
			p, e := d.Pos(), d.End()
			if p.IsValid() && e.IsValid() {
				verifAssert(p.Offset() >= 0 && p.Offset() <= len(src), "A02.1-declaration-start-within-source")
				verifAssert(e.Offset() >= p.Offset() && e.Offset() <= len(src)+1, "A02.1-declaration-end-within-source")
			}
		}
	}
}
