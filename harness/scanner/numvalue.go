package scanner

// C06 / A06.5: number literals in every base and with every multiplier denote
// exactly the value the spec defines. The scanner decides which spellings are
// numbers; literal.ParseNum + NumInfo.Decimal (over the decimal contract model)
// gives the value; the reference below evaluates the spec grammar directly.

import (
	verifliteral2 "cuelang.org/go/cue/literal"
	veriftoken2 "cuelang.org/go/cue/token"
	verifapd2 "github.com/cockroachdb/apd/v3"
)

// verifRefNumber evaluates s as a CUE number literal (already known to be one
// token): value = mant * base^0 * 10^p10 * mult, isInt per the spec.
type verifRefNum struct {
	mant  verifMI
	p10   int // power of ten (may be negative)
	mult  verifMI
	isInt bool
}

func verifRefEval(s string) verifRefNum {
	r := verifRefNum{mant: verifMIConst(0), mult: verifMIConst(1), isInt: true}
	i := 0
	base := int64(10)
	if len(s) >= 2 && s[0] == '0' {
		switch s[1] {
		case 'x', 'X':
			base = 16
		case 'b':
			base = 2
		case 'o':
			base = 8
		}
		if base != 10 {
			i = 2
		}
	}
	if base != 10 {
		for ; i < len(s); i++ {
			c := s[i]
			if c == '_' {
				continue
			}
			d, _ := verifDigitVal(c)
			r.mant = verifMIAdd(verifMIMul(r.mant, verifMIConst(base)), verifMIConst(int64(d)))
		}
		return r
	}
	frac := 0
	seenDot := false
	for ; i < len(s); i++ {
		c := s[i]
		if c == '_' {
			continue
		}
		if c == '.' {
			seenDot = true
			r.isInt = false
			continue
		}
		if c < '0' || c > '9' {
			break
		}
		r.mant = verifMIAdd(verifMIMul(r.mant, verifMIConst(10)), verifMIConst(int64(c-'0')))
		if seenDot {
			frac++
		}
	}
	r.p10 = -frac
	if i < len(s) && (s[i] == 'e' || s[i] == 'E') {
		r.isInt = false
		i++
		neg := false
		if i < len(s) && (s[i] == '+' || s[i] == '-') {
			neg = s[i] == '-'
			i++
		}
		e := 0
		for ; i < len(s); i++ {
			if s[i] == '_' {
				continue
			}
			e = e*10 + int(s[i]-'0')
		}
		if neg {
			e = -e
		}
		r.p10 += e
		return r
	}
	if i < len(s) {
		// multiplier: K M G T P, optionally followed by i
		n := 0
		switch s[i] {
		case 'K':
			n = 1
		case 'M':
			n = 2
		case 'G':
			n = 3
		case 'T':
			n = 4
		case 'P':
			n = 5
		}
		unit := int64(1000)
		if i+1 < len(s) && s[i+1] == 'i' {
			unit = 1024
		}
		for k := 0; k < n; k++ {
			r.mult = verifMIMul(r.mult, verifMIConst(unit))
		}
		r.isInt = true // si_lit is an int
	}
	return r
}

// long literals: a concrete prefix and suffix around the arbitrary bytes, so
// that 64-bit and 128-bit boundaries of every base are inside the bound
var verifNumTemplates = [][2]string{
	{"", ""},
	{"0x", "fffffffffffffff"},
	{"0X", "0000000000000000"},
	{"0b", "111111111111111111111111111111111111111111111111111111111111111"},
	{"0o", "777777777777777777777"},
	{"", "8446744073709551615"},
	{"0x", "ffffffffffffffffffffffffffffffff"},
	{"1", "000000000000000000000000000000000000Ki"},
}

func verifHarnessNumLiteralValue() {
	n := verifParam("N", 4)
	t := verifParam("T", 0)
	s := verifNumTemplates[t][0] + verifStringUpTo(n) + verifNumTemplates[t][1]
	one, tok := verifScanOne(s, veriftoken2.INT, veriftoken2.FLOAT)
	if !one {
		return
	}
	verifReach("number-token")
	ref := verifRefEval(s)
	// exponents beyond the model's power table are outside the claim
	verifAssume(ref.p10 >= -40 && ref.p10 <= 40)
	// region predicates of recorded findings
	hasMult := !verifMIEq(ref.mult, verifMIConst(1))
	fracProduct := false
	if ref.p10 < 0 {
		fracProduct = verifAnd(hasMult, verifNot(verifMIEq(verifMIModE(verifMIMul(ref.mant, ref.mult), verifMIPow10(-ref.p10)), verifMIConst(0))))
	}
	verifPublish("multiplier-with-fractional-product", fracProduct)
	verifPublish("leading-zero-then-underscore", len(s) >= 2 && s[0] == '0' && s[1] == '_')
	var info verifliteral2.NumInfo
	err := verifliteral2.ParseNum(s, &info)
	verifAssert(err == nil, "A06.5-scanned-number-has-a-value")
	if err != nil {
		return
	}
	verifAssert(info.IsInt() == ref.isInt, "A06.5-int-or-float-per-spec")
	verifAssert(info.IsInt() == (tok == veriftoken2.INT), "A06.5-token-kind-agrees")
	var d verifapd2.Decimal
	derr := info.Decimal(&d)
	verifAssert(derr == nil, "A06.5-decimal-conversion-succeeds")
	if derr != nil {
		return
	}
	verifReach("valued")
	// compare d = coeff*10^exp with mant*mult*10^p10 at the lower exponent
	lo := int(d.Exponent)
	if ref.p10 < lo {
		lo = ref.p10
	}
	got := verifMIMul(verifMIOf(&d.Coeff), verifMIPow10(int(d.Exponent)-lo))
	want := verifMIMul(verifMIMul(ref.mant, ref.mult), verifMIPow10(ref.p10-lo))
	verifSample("got=" + verifMIString(got) + " want=" + verifMIString(want) + " coeff=" + verifMIString(verifMIOf(&d.Coeff)) + " mant=" + verifMIString(ref.mant))
	verifAssert(!d.Negative, "A06.5-unsigned-literal-is-non-negative")
	verifAssert(verifMIEq(got, want), "A06.5-literal-denotes-spec-value")
}
