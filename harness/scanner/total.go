package scanner

// C09 / A09.2 scanner totality and position sanity on every short source;
// C09 / A09.3 agreement between the scanner, literal.ParseNum and
// ast.IsValidIdent on whole inputs. (Also the scanner part of C02.)

import (
	verifast "cuelang.org/go/cue/ast"
	veriftoken "cuelang.org/go/cue/token"
)

func verifHarnessScanTotal() {
	n := verifParam("N", 3)
	mode := Mode(verifParam("MODE", int(ScanComments)))
	src := verifBytesUpTo(n)
	f := veriftoken.NewFile("x.cue", -1, len(src))
	var s Scanner
	errs := 0
	s.Init(f, src, func(pos veriftoken.Pos, msg string, args []interface{}) { errs++ }, mode)
	last := 0
	for i := 0; ; i++ {
		// every call consumes input, emits one of <= len+1 elided commas, or ends
		verifAssert(i <= 2*len(src)+2, "A09.2-terminates")
		pos, tok, lit := s.Scan()
		off := pos.Offset()
		verifAssert(off >= 0 && off <= len(src), "A09.2-offset-in-range")
		verifAssert(off >= last, "A09.2-offsets-monotone")
		last = off
		if tok == veriftoken.EOF {
			break
		}
		switch tok {
		case veriftoken.IDENT, veriftoken.INT, veriftoken.FLOAT, veriftoken.STRING, veriftoken.INTERPOLATION, veriftoken.ATTRIBUTE:
			verifAssert(off+len(lit) <= len(src), "A09.2-literal-within-source")
			verifAssert(string(src[off:off+len(lit)]) == lit, "A09.2-literal-is-source-slice")
		}
		if tok.IsKeyword() {
			verifAssert(string(src[off:off+len(lit)]) == lit, "A09.2-keyword-literal")
		}
	}
	verifReach("eof")
}

// verifScanOne reports whether src scans as exactly one token of kind k1 or
// k2 whose literal is the whole source, followed only by the elided comma and
// EOF, with no scanner error.
func verifScanOne(src string, k1, k2 veriftoken.Token) (bool, veriftoken.Token) {
	b := []byte(src)
	f := veriftoken.NewFile("x.cue", -1, len(b))
	var s Scanner
	errs := 0
	s.Init(f, b, func(pos veriftoken.Pos, msg string, args []interface{}) { errs++ }, 0)
	_, tok, lit := s.Scan()
	if (tok != k1 && tok != k2) || lit != src {
		return false, tok
	}
	_, tok2, lit2 := s.Scan()
	if tok2 != veriftoken.COMMA || lit2 != "\n" {
		return false, tok
	}
	_, tok3, _ := s.Scan()
	return tok3 == veriftoken.EOF && errs == 0, tok
}

func verifHarnessScanIdentAgree() {
	n := verifParam("N", 4)
	s := verifStringUpTo(n)
	// keywords scan as their own tokens; identifiers and keywords together are
	// what IsValidIdent accepts
	b := []byte(s)
	f := veriftoken.NewFile("x.cue", -1, len(b))
	var sc Scanner
	errs := 0
	sc.Init(f, b, func(pos veriftoken.Pos, msg string, args []interface{}) { errs++ }, 0)
	_, tok, lit := sc.Scan()
	one := (tok == veriftoken.IDENT || tok.IsKeyword()) && lit == s
	if one {
		_, tok2, _ := sc.Scan()
		_, tok3, _ := sc.Scan()
		one = tok2 == veriftoken.COMMA && tok3 == veriftoken.EOF && errs == 0
	}
	verifReach("decided")
	verifAssert(one == verifast.IsValidIdent(s), "A09.3-ident-agrees")
}
