package scanner

// C09 / A09.3: the scanner and literal.ParseNum agree on which spellings are numbers.

import (
	verifapd "github.com/cockroachdb/apd/v3"

	verifliteral "cuelang.org/go/cue/literal"
	veriftoken3 "cuelang.org/go/cue/token"
)

// The value of a literal with a multiplier is computed with apd and is checked
// under C06; here only the spelling matters.
//
//verif:stub (*cuelang.org/go/cue/literal.NumInfo).decimal verifStubNumDecimal
func verifStubNumDecimal(p *verifliteral.NumInfo, v *verifapd.Decimal) error { return nil }

func verifHarnessScanNumAgree() {
	n := verifParam("N", 4)
	s := verifStringUpTo(n)
	one, tok := verifScanOne(s, veriftoken3.INT, veriftoken3.FLOAT)
	var info verifliteral.NumInfo
	err := verifliteral.ParseNum(s, &info)
	parses := err == nil && len(s) > 0 && s[0] != '-' && s[0] != '+'
	verifReach("decided")
	// known-finding region predicates
	verifPublish("leading-zero-then-underscore", len(s) >= 2 && s[0] == '0' && s[1] == '_')
	verifPublish("mantissa-starts-with-underscore", len(s) >= 1 && s[0] == '_' || len(s) >= 2 && s[0] == '.' && s[1] == '_')
	if one {
		verifAssert(parses, "A09.3-scanned-number-parses")
		verifAssert(info.IsInt() == (tok == veriftoken3.INT), "A09.3-int-float-kind-agrees")
	}
	if parses {
		verifAssert(one, "A09.3-parsable-number-scans-as-one-token")
	}
}

