package flow

import (
	verifcue "cuelang.org/go/cue"
	verifruntime "cuelang.org/go/internal/core/runtime"
)

func verifHarnessCompileProbe() {
	ctx := (*verifcue.Context)(verifruntime.New())
	v := ctx.CompileString(`
a: 1
b: a + 2
c: {x: b, y: "s"}
`)
	verifReach("compiled")
	verifAssert(v.Err() == nil, "probe-no-error")
	n, err := v.LookupPath(verifcue.ParsePath("c.x")).Int64()
	verifAssert(err == nil && n == 3, "probe-value")
}
