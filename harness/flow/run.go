package flow

// C18 on the REAL controller: flow.New (task discovery, dependency discovery
// through references, cycle check) and Controller.Run (runLoop, markReady,
// updateTaskResults, updateValue with the real evaluator) are executed on a
// workflow generated from a symbolic dependency relation; the completion
// order of the task goroutines is an explored choice (cooperative goroutine
// model of the executor) and every task outcome (success / failure) too.

import (
	verifcontext "context"
	veriftime "time"

	verifcue "cuelang.org/go/cue"
	verifadt "cuelang.org/go/internal/core/adt"
	verifruntime "cuelang.org/go/internal/core/runtime"
)

//verif:stub context.WithCancel verifStubWithCancel
//verif:stub context.Background verifStubBackground

// The context is never cancelled in these harnesses: Done() is a nil channel
// (never ready), as context.Background's.
type verifCtx struct{}

func (verifCtx) Deadline() (deadline veriftime.Time, ok bool) { return }
func (verifCtx) Done() <-chan struct{}                   { return nil }
func (verifCtx) Err() error                              { return nil }
func (verifCtx) Value(key any) any                       { return nil }

func verifStubBackground() verifcontext.Context { return verifCtx{} }
func verifStubWithCancel(parent verifcontext.Context) (verifcontext.Context, verifcontext.CancelFunc) {
	return parent, func() {}
}

type verifMonitor struct {
	n       int
	dep     [4][4]bool // dep[j][i]: task j references task i
	fail    [4]bool    // the outcome chosen for task i
	started [4]int
	ended   [4]bool
	failed  [4]bool
	outSeen [4][4]bool // outSeen[j][i]: when j started it saw i's result value
	order   []int
	initErr bool // flow.New already recorded an error (cycle check)
	source  string
	lists   [4]bool // task i fills out: ["n"] instead of a string
}

func verifTaskName(i int) string { return "t" + string([]byte{byte('0' + i)}) }

func verifWorkflowSource(m *verifMonitor) string {
	src := ""
	for j := 0; j < m.n; j++ {
		src += verifTaskName(j) + ": {\n\t$id: \"task\"\n\tidx: " + string([]byte{byte('0' + j)}) + "\n\tout: string\n"
		for i := 0; i < m.n; i++ {
			if m.dep[j][i] {
				src += "\tin" + string([]byte{byte('0' + i)}) + ": " + verifTaskName(i) + ".out\n"
			}
		}
		src += "}\n"
	}
	return src
}

func verifRunWorkflow(m *verifMonitor) (*Controller, error) {
	ctx := (*verifcue.Context)(verifruntime.New())
	src := m.source
	if src == "" {
		src = verifWorkflowSource(m)
	}
	v := ctx.CompileString(src)
	verifAssert(v.Err() == nil, "A18.0-workflow-compiles")
	idPath := verifcue.MakePath(verifcue.Str("$id"))
	idxPath := verifcue.MakePath(verifcue.Str("idx"))
	taskFunc := func(v verifcue.Value) (Runner, error) {
		if !v.LookupPath(idPath).Exists() {
			return nil, nil
		}
		return RunnerFunc(func(t *Task) error {
			i64, _ := t.Value().LookupPath(idxPath).Int64()
			i := int(i64)
			m.started[i]++
			m.order = append(m.order, i)
			// what the task sees of the tasks it references
			for k := 0; k < m.n; k++ {
				if m.dep[i][k] {
					in := t.Value().LookupPath(verifcue.MakePath(verifcue.Str("in" + string([]byte{byte('0' + k)}))))
					s, err := in.String()
					m.outSeen[i][k] = err == nil && s == "done-"+verifTaskName(k)
				}
			}
			if m.fail[i] {
				m.failed[i] = true
				return &verifTaskErr{}
			}
			// result: out: "done-ti"   (or out: ["n"] for a list-producing task)
			var out verifadt.Expr = &verifadt.String{Str: "done-" + verifTaskName(i)}
			if m.lists[i] {
				out = &verifadt.ListLit{Elems: []verifadt.Elem{&verifadt.String{Str: "n"}}}
			}
			t.update = &verifadt.StructLit{Decls: []verifadt.Decl{&verifadt.Field{
				Label: t.c.opCtx.StringLabel("out"),
				Value: out,
			}}}
			m.ended[i] = true
			return nil
		}), nil
	}
	c := New(&Config{}, v, taskFunc)
	m.initErr = c.errs != nil
	err := c.Run(verifcontext.Background())
	return c, err
}

type verifTaskErr struct{}

func (*verifTaskErr) Error() string { return "task failed (harness)" }

// acyclic relations: task j may reference any task i < j
func verifHarnessFlowAcyclic() {
	n := verifParam("N", 2)
	m := &verifMonitor{n: n}
	for j := 0; j < n; j++ {
		for i := 0; i < j; i++ {
			m.dep[j][i] = verifChoice(2) == 1
		}
	}
	withFailures := verifParam("FAIL", 1) == 1
	anyFail := false
	for i := 0; i < n; i++ {
		if withFailures {
			m.fail[i] = verifChoice(2) == 1
		}
		anyFail = anyFail || m.fail[i]
	}
	c, err := verifRunWorkflow(m)
	verifReach("ran")
	verifAssert(len(c.Tasks()) == n, "A18.2-all-tasks-discovered")
	for j := 0; j < n; j++ {
		verifAssert(m.started[j] <= 1, "A18.2-at-most-once")
	}
	// every started task started after everything it references completed
	// successfully, and saw the results filled in
	pos := [4]int{-1, -1, -1, -1}
	for k, i := range m.order {
		pos[i] = k
	}
	for j := 0; j < n; j++ {
		if m.started[j] == 0 {
			continue
		}
		for i := 0; i < n; i++ {
			if m.dep[j][i] {
				verifAssert(m.started[i] == 1 && pos[i] < pos[j], "A18.2-dependency-ran-before")
				verifAssert(m.ended[i] && !m.failed[i], "A18.2-dependency-succeeded")
				verifAssert(m.outSeen[j][i], "A18.2-dependant-sees-filled-result")
			}
		}
	}
	if !anyFail {
		verifReach("no-failure")
		verifAssert(err == nil, "A18.2-no-error-without-failure")
		for j := 0; j < n; j++ {
			verifAssert(m.started[j] == 1, "A18.2-all-run-when-none-fails")
		}
	} else {
		verifAssert(err != nil, "A18.2-failure-is-reported")
		// nothing that (transitively) depends on a failed task was started
		var bad [4]bool
		for i := 0; i < n; i++ {
			bad[i] = m.failed[i]
		}
		for j := 0; j < n; j++ { // i < j order makes one pass a transitive closure
			for i := 0; i < j; i++ {
				if m.dep[j][i] && bad[i] {
					bad[j] = true
				}
			}
			if bad[j] && !m.failed[j] {
				verifAssert(m.started[j] == 0, "A18.2-dependant-of-failed-task-not-started")
			}
		}
	}
}

// arbitrary relations (cycles allowed): a dependency cycle is reported as an
// error (by Run) and then no task runs; without a cycle the workflow completes.
func verifHarnessFlowCycles() {
	n := verifParam("N", 3)
	m := &verifMonitor{n: n}
	for j := 0; j < n; j++ {
		for i := 0; i < n; i++ {
			if i != j {
				m.dep[j][i] = verifChoice(2) == 1
			}
		}
	}
	// reference: transitive closure
	var reach [4][4]bool
	for j := 0; j < n; j++ {
		for i := 0; i < n; i++ {
			reach[j][i] = m.dep[j][i]
		}
	}
	for k := 0; k < n; k++ {
		for j := 0; j < n; j++ {
			for i := 0; i < n; i++ {
				if reach[j][k] && reach[k][i] {
					reach[j][i] = true
				}
			}
		}
	}
	cyclic := false
	for i := 0; i < n; i++ {
		cyclic = cyclic || reach[i][i]
	}
	_, err := verifRunWorkflow(m)
	verifReach("ran")
	verifAssert(m.initErr == cyclic, "A18.1-cycle-detected-at-initialisation-iff-cyclic")
	if cyclic {
		verifReach("cyclic")
		verifAssert(err != nil, "A18.1-cycle-is-an-error")
		for i := 0; i < n; i++ {
			verifAssert(m.started[i] == 0, "A18.1-nothing-runs-in-a-cyclic-workflow")
		}
		for i := 0; i < n; i++ {
			if reach[i][i] {
				verifAssert(m.started[i] == 0, "A18.1-task-on-a-cycle-never-starts")
			}
		}
	} else {
		verifAssert(err == nil, "A18.1-no-cycle-no-error")
		for i := 0; i < n; i++ {
			verifAssert(m.started[i] == 1, "A18.1-acyclic-all-run-once")
		}
	}
}


// a task that only appears during the run: t0 produces a list, a comprehension
// over it generates task t2, which references t1. Whatever the completion order
// of t0 and t1, t2 runs exactly once, after t1, with t1's result visible.
func verifHarnessFlowLateTask() {
	m := &verifMonitor{n: 3}
	m.lists[0] = true
	m.dep[2][1] = true
	m.source = `
t0: {$id: "task", idx: 0, out: [...string]}
t1: {$id: "task", idx: 1, out: string}
gen: {
	for k in t0.out {
		(k): {$id: "task", idx: 2, in1: t1.out, out: string}
	}
}
`
	_, err := verifRunWorkflow(m)
	verifReach("ran")
	verifAssert(err == nil, "A18.3-late-task-workflow-completes")
	verifAssert(m.started[0] == 1 && m.started[1] == 1, "A18.3-initial-tasks-run-once")
	verifAssert(m.started[2] == 1, "A18.3-late-task-runs-exactly-once")
	verifAssert(m.outSeen[2][1], "A18.3-late-task-sees-its-dependency-result")
	pos := [4]int{-1, -1, -1, -1}
	for k, i := range m.order {
		pos[i] = k
	}
	verifAssert(pos[1] < pos[2] && pos[0] < pos[2], "A18.3-late-task-runs-after-producer-and-dependency")
}
