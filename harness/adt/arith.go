package adt

// C06 / A06.1 (+ - * exact or error), A06.3 (div/mod/quo/rem identities),
// A06.4 (comparison operators form one total order by value).

func verifResultNum(v Value) (*Num, bool) {
	n, ok := v.(*Num)
	return n, ok
}

// + - * on numbers: the result denotes the exact mathematical value and is an
// int exactly when both operands are ints - or an error is returned.
func verifHarnessArithExact() {
	digits := verifParam("DIGITS", 4)
	maxExp := verifParam("EXP", 1)
	intsOnly := verifParam("INTS", 0) == 1
	ctx := verifNewCtx()
	var a, b *Num
	if intsOnly {
		a = &Num{K: IntKind, X: verifDec("a", digits, 0)}
		b = &Num{K: IntKind, X: verifDec("b", digits, 0)}
	} else {
		a, b = verifNum("a", digits, maxExp), verifNum("b", digits, maxExp)
	}
	opi := verifParam("OP", -1)
	if opi < 0 {
		opi = verifChoice(3)
	}
	op := []Op{AddOp, SubtractOp, MultiplyOp}[opi]
	r := BinOp(ctx, nil, op, a, b)
	verifReach("computed")
	n, ok := verifResultNum(r)
	if !ok {
		_, isErr := r.(*Bottom)
		verifAssert(isErr, "A06.1-result-is-number-or-error")
		return
	}
	verifReach("number-result")
	// exact value at a scale that covers every exponent involved
	scale := 2*maxExp + 2
	if n.X.Exponent < int32(-scale) {
		verifAssert(false, "A06.1-result-exponent-in-range")
	}
	av, bv := verifDecVal(&a.X, maxExp), verifDecVal(&b.X, maxExp)
	var want verifMI // scaled by 10^scale
	switch op {
	case AddOp:
		want = verifMIMul(verifMIAdd(av, bv), verifMIPow10(scale-maxExp))
	case SubtractOp:
		want = verifMIMul(verifMISub(av, bv), verifMIPow10(scale-maxExp))
	default:
		want = verifMIMul(verifMIMul(av, bv), verifMIPow10(scale-2*maxExp))
	}
	// known-finding region: a float operand is involved and the exact result
	// needs more than 34 significant digits (floats are decimal128-like by design)
	bothIntOperands := a.K == IntKind && b.K == IntKind
	verifPublish("float-result-exceeds-34-digits", verifAnd(!bothIntOperands, verifNot(verifMILt(verifMIAbs(want), verifMIPow10(34+scale)))))
	verifAssert(verifMIEq(verifDecVal(&n.X, scale), want), "A06.1-exact-value")
	bothInt := a.K == IntKind && b.K == IntKind
	verifAssert((n.K == IntKind) == bothInt, "A06.1-int-iff-both-int")
	if n.K == IntKind {
		verifAssert(verifMIEq(verifMIModE(verifDecVal(&n.X, scale), verifMIPow10(scale)), verifMIConst(0)), "A06.1-int-result-is-integral")
	}
}

// div, mod, quo, rem on integers: a == b*div + mod with 0 <= mod < |b|
// (Euclidean) and a == b*quo + rem with |rem| < |b| and rem of the sign of a
// (truncated); these identities determine all four results.
func verifHarnessIntDiv() {
	digits := verifParam("DIGITS", 4)
	ctx := verifNewCtx()
	a := &Num{K: IntKind, X: verifDec("a", digits, 0)}
	b := &Num{K: IntKind, X: verifDec("b", digits, 0)}
	av, bv := verifDecVal(&a.X, 0), verifDecVal(&b.X, 0)
	rs := [4]Value{ctx.IntDiv(a, b), ctx.IntMod(a, b), ctx.IntQuo(a, b), ctx.IntRem(a, b)}
	verifReach("divided")
	zero := verifMIEq(bv, verifMIConst(0))
	var v [4]verifMI
	for i, r := range rs {
		n, ok := verifResultNum(r)
		if zero {
			verifAssert(!ok, "A06.3-zero-divisor-is-error")
			continue
		}
		verifAssert(ok, "A06.3-nonzero-divisor-gives-number")
		if !ok {
			return
		}
		verifAssert(n.K == IntKind, "A06.3-result-is-int")
		v[i] = verifDecVal(&n.X, 0)
	}
	if zero {
		return
	}
	absb := verifMIAbs(bv)
	q, m, tq, tr := v[0], v[1], v[2], v[3]
	verifAssert(verifMIEq(av, verifMIAdd(verifMIMul(bv, q), m)), "A06.3-div-mod-identity")
	verifAssert(verifAnd(verifMILe(verifMIConst(0), m), verifMILt(m, absb)), "A06.3-mod-range")
	verifAssert(verifMIEq(av, verifMIAdd(verifMIMul(bv, tq), tr)), "A06.3-quo-rem-identity")
	verifAssert(verifMILt(verifMIAbs(tr), absb), "A06.3-rem-range")
	verifAssert(verifOr(verifMIEq(tr, verifMIConst(0)), verifMILt(tr, verifMIConst(0)) == verifMILt(av, verifMIConst(0))), "A06.3-rem-sign")
}

// the six comparison operators agree with one total order by value
func verifHarnessCompareOrder() {
	digits := verifParam("DIGITS", 4)
	maxExp := verifParam("EXP", 1)
	strLen := verifParam("STRLEN", 2)
	ctx := verifNewCtx()
	var l, r Value
	var lt, eq bool
	switch verifChoice(3) {
	case 0:
		a, b := verifNum("a", digits, maxExp), verifNum("b", digits, maxExp)
		l, r = a, b
		lt, eq = verifNumLess(a, b, maxExp), verifNumEq(a, b, maxExp)
	case 1:
		a, b := verifStringUpTo(strLen), verifStringUpTo(strLen)
		l, r = &String{Str: a}, &String{Str: b}
		lt, eq = a < b, a == b
	default:
		a, b := verifStringUpTo(strLen), verifStringUpTo(strLen)
		l, r = &Bytes{B: []byte(a)}, &Bytes{B: []byte(b)}
		lt, eq = a < b, a == b
	}
	op := verifNumOps[verifChoice(len(verifNumOps))]
	got, ok := BinOp(ctx, nil, op, l, r).(*Bool)
	verifReach("compared")
	verifAssert(ok, "A06.4-comparison-yields-bool")
	if !ok {
		return
	}
	var want bool
	switch op {
	case LessThanOp:
		want = lt
	case LessEqualOp:
		want = verifOr(lt, eq)
	case GreaterThanOp:
		want = verifNot(verifOr(lt, eq))
	case GreaterEqualOp:
		want = verifNot(lt)
	case NotEqualOp:
		want = verifNot(eq)
	default:
		want = eq
	}
	verifAssert(got.B == want, "A06.4-operator-agrees-with-order")
}
