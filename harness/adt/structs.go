package adt

// C01 on the REAL evaluator at struct level: struct literals built directly as
// ADT (no parser), with fields a, b whose values are symbolic integer atoms,
// bounds on symbolic integers, the type int, or references to a sibling field
// of the same literal. The same declarations are evaluated
//
//	V1 = S1 & S2                    (as written)
//	V2 = S2' & S1'                  (operands of & swapped, declarations of each literal reversed)
//	V3 = { all declarations of S2 then S1 } (one literal: "splitting x: a & b into two declarations")
//
// through Vertex.Finalize (scheduler, insertArc, reference resolution, cycle
// handling) and compared per field: same set of fields, same error status and
// code, and the same set of admitted integers for an arbitrary probe.
//
// References are only generated to labels declared in the same literal (the
// compiler resolves identifiers lexically, so no other FieldReference exists in
// compiled code).

type verifDecl struct {
	label int // 0 a, 1 b
	kind  int // 0 atom, 1 bound, 2 int, 3 reference
	ref   int
	expr  Expr
}

func verifGenDecl(labels []Feature, nops int) verifDecl {
	var d verifDecl
	d.label = verifChoice(len(labels))
	d.kind = verifChoice(4)
	switch d.kind {
	case 0:
		d.expr = verifSmallInt("n")
	case 1:
		ops := []Op{LessThanOp, GreaterEqualOp, GreaterThanOp, LessEqualOp, NotEqualOp}[:nops]
		d.expr = &BoundValue{Op: ops[verifChoice(len(ops))], Value: verifSmallInt("n")}
	case 2:
		d.expr = &BasicType{K: IntKind}
	default:
		d.ref = verifChoice(len(labels))
		d.expr = &FieldReference{Label: labels[d.ref]}
	}
	return d
}

func verifMakeStruct(labels []Feature, ds []verifDecl) *StructLit {
	s := &StructLit{}
	for _, d := range ds {
		s.Decls = append(s.Decls, &Field{Label: labels[d.label], Value: d.expr})
	}
	return s
}

func verifEvalStructs(rt *verifRuntime, ss ...*StructLit) *Vertex {
	ctx := New(nil, &Config{Runtime: rt})
	v := &Vertex{}
	for _, s := range ss {
		v.AddConjunct(MakeRootConjunct(&Environment{}, s))
	}
	v.Finalize(ctx)
	return v
}

// observable state of a field: 0 absent, 1 value, 2+code error; and its kind
func verifFieldState(v *Vertex, f Feature) (state int, val Value, k Kind) {
	a := v.Lookup(f)
	if a == nil {
		return 0, nil, 0
	}
	a = a.DerefValue()
	if b, isB := a.BaseValue.(*Bottom); isB {
		return 2 + int(b.Code), nil, 0
	}
	val, _ = a.BaseValue.(Value)
	return 1, val, a.Kind()
}

func verifAdmitsTop(x Value, p verifMI) (bool, bool) {
	if _, isTop := x.(*Top); isTop {
		return true, true
	}
	return verifAdmits(x, p)
}

func verifReverse(ds []verifDecl) []verifDecl {
	r := make([]verifDecl, len(ds))
	for i, d := range ds {
		r[len(ds)-1-i] = d
	}
	return r
}

func verifHarnessStructOrder() {
	maxDecls := verifParam("DECLS", 2)
	nops := verifParam("OPS", 2)
	rt := &verifRuntime{}
	labels := []Feature{MakeStringLabel(rt, "a"), MakeStringLabel(rt, "b")}
	if verifParam("LABELS", 2) == 3 || verifParam("MODE", 0) != 0 {
		labels = append(labels, MakeStringLabel(rt, "c"))
	}
	var ds [2][]verifDecl
	mode := verifParam("MODE", 0)
	leaf := func(label int) verifDecl { // a non-reference value
		d := verifDecl{label: label, kind: verifChoice(3)}
		switch d.kind {
		case 0:
			d.expr = verifSmallInt("n")
		case 1:
			ops := []Op{LessThanOp, GreaterEqualOp}
			d.expr = &BoundValue{Op: ops[verifChoice(len(ops))], Value: verifSmallInt("n")}
		default:
			d.expr = &BasicType{K: IntKind}
		}
		return d
	}
	ref := func(label, to int) verifDecl {
		return verifDecl{label: label, kind: 3, ref: to, expr: &FieldReference{Label: labels[to]}}
	}
	switch mode {
	case 1:
		// two routes into a: each literal is {a: t, t: V} with t one of b, c and
		// V a leaf or a reference to the remaining label declared as a leaf
		for i := range ds {
			t := 1 + verifChoice(2)
			ds[i] = []verifDecl{ref(0, t), leaf(t)}
			if verifChoice(2) == 1 {
				// the target itself refers on: t: u, u: V
				u := 3 - t
				ds[i] = []verifDecl{ref(0, t), ref(t, u), leaf(u)}
			}
		}
	case 2:
		// a chain with a second constraint at its end: {c: V1, a: c, b: a, b: V3} & {l: V2}
		ds[0] = []verifDecl{leaf(2), ref(0, 2), ref(1, 0), leaf(1)}
		ds[1] = []verifDecl{leaf(verifChoice(3))}
	}
	for i := range ds {
		if mode != 0 {
			break
		}
		md := maxDecls
		if i == 1 {
			md = verifParam("DECLS1", maxDecls)
		}
		n := 1 + verifChoice(md)
		declared := [3]bool{}
		for j := 0; j < n; j++ {
			d := verifGenDecl(labels, nops)
			declared[d.label] = true
			ds[i] = append(ds[i], d)
		}
		for _, d := range ds[i] {
			if d.kind == 3 && !declared[d.ref] {
				return // not a lexically resolvable reference
			}
		}
	}
	v1 := verifEvalStructs(rt, verifMakeStruct(labels, ds[0]), verifMakeStruct(labels, ds[1]))
	v2 := verifEvalStructs(rt, verifMakeStruct(labels, verifReverse(ds[1])), verifMakeStruct(labels, verifReverse(ds[0])))
	all := append(append([]verifDecl{}, ds[1]...), ds[0]...)
	v3 := verifEvalStructs(rt, verifMakeStruct(labels, all))
	verifReach("evaluated")

	p := verifMIFresh("p")
	verifAssume(verifMILe(verifMIConst(0), p))
	verifAssume(verifMILt(p, verifMIConst(verifUniverse)))
	for _, f := range labels {
		s1, x1, k1 := verifFieldState(v1, f)
		for k, w := range []*Vertex{v2, v3} {
			s2, x2, k2 := verifFieldState(w, f)
			name := [2]string{"swapped-and-reversed", "merged-into-one-literal"}[k]
			verifAssert(s1 == s2, "A01.1-same-field-presence-and-error-status-"+name)
			if s1 == 1 && s2 == 1 {
				// same kind: e.g. the type int is not lost in one of the orders
				verifAssert(k1 == k2, "A01.1-same-kind-"+name)
				a1, ok1 := verifAdmitsTop(x1, p)
				a2, ok2 := verifAdmitsTop(x2, p)
				verifAssert(ok1 && ok2, "A01.0-field-value-is-scalar-constraint")
				verifAssert(a1 == a2, "A01.1-same-admitted-values-"+name)
			}
		}
	}
}
