package adt

// C04 on the REAL evaluator: two (or three) disjunctions of integer atoms with
// arbitrary default marks are unified by Vertex.Finalize (scheduleDisjunction,
// crossProduct, doDisjunct, appendDisjunct, finalizeDisjunctions ...). The
// atoms are symbolic integers in 0..3, so equality of disjuncts and
// elimination of conflicting pairs are decided by the solver. The result is
// compared with the spec's value/default pair:
//
//	flat disjunction:   v = set of its atoms, d = set of its marked atoms (none marked: no default)
//	U0-U2:              v = v1 ∩ v2;  d = d1 ∩ d2,  d1 ∩ v2,  v1 ∩ d2  or none
//
// and Vertex.Default resolves to the unique default when there is exactly one.

const verifUniverse = 4

type verifDisj struct {
	vals  [3]*Num
	marks [3]bool
	n     int
	expr  *DisjunctionExpr
}

func verifSmallInt(tag string) *Num {
	n := &Num{K: IntKind}
	c := verifMIFresh(tag)
	verifAssume(verifMILe(verifMIConst(0), c))
	verifAssume(verifMILt(c, verifMIConst(verifUniverse)))
	n.X.Form = 0
	verifMISet(&n.X.Coeff, c)
	return n
}

func verifMakeDisj(tag string, maxTerms int) verifDisj {
	var d verifDisj
	d.n = 1 + verifChoice(maxTerms)
	d.expr = &DisjunctionExpr{}
	for i := 0; i < d.n; i++ {
		d.vals[i] = verifSmallInt(tag)
		d.marks[i] = verifChoice(2) == 1
		d.expr.Values = append(d.expr.Values, Disjunct{Val: d.vals[i], Default: d.marks[i]})
		if d.marks[i] {
			d.expr.HasDefaults = true
		}
	}
	return d
}

func verifIntVal(n *Num) verifMI { return verifDecVal(&n.X, 0) }

// membership of probe p in the value set / default set of a flat disjunction
func (d verifDisj) has(p verifMI) bool {
	r := false
	for i := 0; i < d.n; i++ {
		r = verifOr(r, verifMIEq(verifIntVal(d.vals[i]), p))
	}
	return r
}
func (d verifDisj) hasDefault(p verifMI) bool {
	r := false
	for i := 0; i < d.n; i++ {
		if d.marks[i] {
			r = verifOr(r, verifMIEq(verifIntVal(d.vals[i]), p))
		}
	}
	return r
}
func (d verifDisj) marked() bool { return d.expr.HasDefaults }

// result sets observed on the evaluated vertex
func verifTypeName(x BaseValue) string {
	switch x.(type) {
	case nil:
		return "nil"
	case *Bottom:
		return "Bottom"
	case *Num:
		return "Num"
	case *Disjunction:
		return "Disjunction"
	case *Vertex:
		return "Vertex"
	case *StructMarker:
		return "StructMarker"
	case *Conjunction:
		return "Conjunction"
	case *BasicType:
		return "BasicType"
	}
	return "other"
}

func verifResultSets(v *Vertex, p verifMI) (inV, inD, anyDefault bool, nVals int, ok bool) {
	v = v.DerefValue()
	verifSample("result base value: " + verifTypeName(v.BaseValue))
	switch b := v.BaseValue.(type) {
	case *Bottom:
		return false, false, false, 0, true
	case *Num:
		return verifMIEq(verifIntVal(b), p), false, false, 1, true
	case *Disjunction:
		for i, x := range b.Values {
			var n *Num
			switch y := x.(type) {
			case *Num:
				n = y
			case *Vertex:
				n, _ = y.BaseValue.(*Num)
			}
			if n == nil {
				if y, isV := x.(*Vertex); isV {
					verifSample("disjunct vertex base value: " + verifTypeName(y.BaseValue))
				} else {
					verifSample("disjunct is not a vertex or num")
				}
				return false, false, false, 0, false
			}
			eq := verifMIEq(verifIntVal(n), p)
			inV = verifOr(inV, eq)
			if i < b.NumDefaults {
				inD = verifOr(inD, eq)
			}
		}
		return inV, inD, b.NumDefaults > 0, len(b.Values), true
	}
	return false, false, false, 0, false
}

func verifHarnessDisjunctionDefaults() {
	maxTerms := verifParam("TERMS", 2)
	nd := verifParam("NDISJ", 2)
	ctx := verifNewCtx()
	ds := make([]verifDisj, nd)
	vals := make([]Value, nd)
	var exprs []Expr
	for i := range ds {
		ds[i] = verifMakeDisj("d", maxTerms)
		exprs = append(exprs, ds[i].expr)
	}
	_ = vals
	v := &Vertex{}
	for _, e := range exprs {
		v.AddConjunct(MakeRootConjunct(&Environment{}, e))
	}
	v.Finalize(ctx)
	verifReach("evaluated")

	p := verifMIFresh("p")
	verifAssume(verifMILe(verifMIConst(0), p))
	verifAssume(verifMILt(p, verifMIConst(verifUniverse)))

	// oracle. v: an atom is in the value iff it is in every disjunction.
	inAll := func(u verifMI) bool {
		r := true
		for _, d := range ds {
			r = verifAnd(r, d.has(u))
		}
		return r
	}
	// "if all the marked disjuncts of a marked disjunction are eliminated, the
	// remaining unmarked disjuncts are considered as if they originated from an
	// unmarked disjunction": a mark survives iff its atom is in v.
	eff := make([]bool, len(ds)) // disjunction k still counts as marked
	anyMarked := false
	for k, d := range ds {
		eff[k] = false
		if d.marked() {
			for u := 0; u < verifUniverse; u++ {
				mu := verifMIConst(int64(u))
				eff[k] = verifOr(eff[k], verifAnd(d.hasDefault(mu), inAll(mu)))
			}
		}
		anyMarked = verifOr(anyMarked, eff[k])
	}
	// d (rules U1/U2): an atom is a default iff it is a default of every
	// (still) marked disjunction and a value of every other one
	inDefault := func(u verifMI) bool {
		r := true
		for k, d := range ds {
			r = verifAnd(r, verifOr(verifAnd(eff[k], d.hasDefault(u)), verifAnd(verifNot(eff[k]), d.has(u))))
		}
		return verifAnd(anyMarked, r)
	}
	wantV := inAll(p)
	wantD := inDefault(p)
	inV, inD, anyDefault, _, ok := verifResultSets(v, p)
	verifAssert(ok, "A04.0-result-is-atom-disjunction-or-bottom")
	verifAssert(inV == wantV, "A04.1-value-set-is-intersection-of-unions")
	if anyDefault {
		// the evaluator reports defaults: they are exactly the spec's default set
		verifAssert(anyMarked, "A04.2-defaults-only-from-surviving-marks")
		verifAssert(inD == wantD, "A04.2-default-set-per-U-and-D-rules")
	}
	// resolution: Default() yields a single atom exactly when the spec's pair
	// has exactly one default, or no default and exactly one value
	cntV, cntD := 0, 0
	for u := 0; u < verifUniverse; u++ {
		mu := verifMIConst(int64(u))
		cntV += verifIte(inAll(mu), 1, 0)
		cntD += verifIte(inDefault(mu), 1, 0)
	}
	specResolves := verifOr(cntD == 1, verifAnd(cntD == 0, cntV == 1))
	r := v.Default().DerefValue()
	if n, isNum := r.BaseValue.(*Num); isNum {
		verifReach("resolved")
		verifAssert(specResolves, "A04.3-resolves-only-when-spec-has-a-unique-choice")
		isP := verifMIEq(verifIntVal(n), p)
		verifAssert(verifImplies(wantD, isP), "A04.3-unique-default-is-the-resolved-atom")
		verifAssert(verifImplies(verifAnd(cntD == 0, wantV), isP), "A04.3-without-surviving-default-the-unique-value")
	} else if _, isBottom := r.BaseValue.(*Bottom); !isBottom {
		verifReach("unresolved")
		verifAssert(verifNot(specResolves), "A04.3-ambiguity-is-not-resolved-silently-and-unique-choice-is-resolved")
	} else {
		verifAssert(cntV == 0, "A04.1-bottom-only-if-no-common-atom")
	}
}
