package adt

// C04 on the REAL evaluator: two (or three) disjunctions of integer atoms with
// arbitrary default marks are unified by Vertex.Finalize (scheduleDisjunction,
// crossProduct, doDisjunct, appendDisjunct, finalizeDisjunctions ...). The
// atoms are symbolic integers in 0..3, so equality of disjuncts and
// elimination of conflicting pairs are decided by the solver. The result is
// compared with the spec's value/default pair:
//
//	flat disjunction:   v = set of its atoms, d = set of its marked atoms (none marked: no default)
//	U0-U2:              v = v1 ∩ v2;  d = d1 ∩ d2,  d1 ∩ v2,  v1 ∩ d2  or none
//
// and Vertex.Default resolves to the unique default when there is exactly one.

const verifUniverse = 4

type verifDisj struct {
	vals  [3]*Num
	marks [3]bool
	n     int
	expr  *DisjunctionExpr
}

func verifSmallInt(tag string) *Num {
	n := &Num{K: IntKind}
	c := verifMIFresh(tag)
	verifAssume(verifMILe(verifMIConst(0), c))
	verifAssume(verifMILt(c, verifMIConst(verifUniverse)))
	n.X.Form = 0
	verifMISet(&n.X.Coeff, c)
	return n
}

func verifMakeDisj(tag string, maxTerms int) verifDisj {
	var d verifDisj
	d.n = 1 + verifChoice(maxTerms)
	d.expr = &DisjunctionExpr{}
	for i := 0; i < d.n; i++ {
		d.vals[i] = verifSmallInt(tag)
		d.marks[i] = verifChoice(2) == 1
		d.expr.Values = append(d.expr.Values, Disjunct{Val: d.vals[i], Default: d.marks[i]})
		if d.marks[i] {
			d.expr.HasDefaults = true
		}
	}
	return d
}

func verifIntVal(n *Num) verifMI { return verifDecVal(&n.X, 0) }

// membership of probe p in the value set / default set of a flat disjunction
func (d verifDisj) has(p verifMI) bool {
	r := false
	for i := 0; i < d.n; i++ {
		r = verifOr(r, verifMIEq(verifIntVal(d.vals[i]), p))
	}
	return r
}
func (d verifDisj) hasDefault(p verifMI) bool {
	r := false
	for i := 0; i < d.n; i++ {
		if d.marks[i] {
			r = verifOr(r, verifMIEq(verifIntVal(d.vals[i]), p))
		}
	}
	return r
}
func (d verifDisj) marked() bool { return d.expr.HasDefaults }

// result sets observed on the evaluated vertex
func verifTypeName(x BaseValue) string {
	switch x.(type) {
	case nil:
		return "nil"
	case *Bottom:
		return "Bottom"
	case *Num:
		return "Num"
	case *Disjunction:
		return "Disjunction"
	case *Vertex:
		return "Vertex"
	case *StructMarker:
		return "StructMarker"
	case *Conjunction:
		return "Conjunction"
	case *BasicType:
		return "BasicType"
	}
	return "other"
}

func verifResultSets(v *Vertex, p verifMI) (inV, inD, anyDefault bool, nVals int, ok bool) {
	v = v.DerefValue()
	verifSample("result base value: " + verifTypeName(v.BaseValue))
	switch b := v.BaseValue.(type) {
	case *Bottom:
		return false, false, false, 0, true
	case *Num:
		return verifMIEq(verifIntVal(b), p), false, false, 1, true
	case *Disjunction:
		for i, x := range b.Values {
			var n *Num
			switch y := x.(type) {
			case *Num:
				n = y
			case *Vertex:
				n, _ = y.BaseValue.(*Num)
			}
			if n == nil {
				if y, isV := x.(*Vertex); isV {
					verifSample("disjunct vertex base value: " + verifTypeName(y.BaseValue))
				} else {
					verifSample("disjunct is not a vertex or num")
				}
				return false, false, false, 0, false
			}
			eq := verifMIEq(verifIntVal(n), p)
			inV = verifOr(inV, eq)
			if i < b.NumDefaults {
				inD = verifOr(inD, eq)
			}
		}
		return inV, inD, b.NumDefaults > 0, len(b.Values), true
	}
	return false, false, false, 0, false
}

func verifHarnessDisjunctionDefaults() {
	maxTerms := verifParam("TERMS", 2)
	nd := verifParam("NDISJ", 2)
	ctx := verifNewCtx()
	ds := make([]verifDisj, nd)
	vals := make([]Value, nd)
	var exprs []Expr
	for i := range ds {
		mt := maxTerms
		if i == 0 {
			mt = verifParam("TERMS0", maxTerms)
		}
		ds[i] = verifMakeDisj("d", mt)
		exprs = append(exprs, ds[i].expr)
	}
	_ = vals
	v := &Vertex{}
	for _, e := range exprs {
		v.AddConjunct(MakeRootConjunct(&Environment{}, e))
	}
	v.Finalize(ctx)
	verifReach("evaluated")

	p := verifMIFresh("p")
	verifAssume(verifMILe(verifMIConst(0), p))
	verifAssume(verifMILt(p, verifMIConst(verifUniverse)))

	// oracle. v: an atom is in the value iff it is in every disjunction.
	inAll := func(u verifMI) bool {
		r := true
		for _, d := range ds {
			r = verifAnd(r, d.has(u))
		}
		return r
	}
	// "if all the marked disjuncts of a marked disjunction are eliminated, the
	// remaining unmarked disjuncts are considered as if they originated from an
	// unmarked disjunction": a mark survives iff its atom is in v.
	eff := make([]bool, len(ds)) // disjunction k still counts as marked
	anyMarked := false
	for k, d := range ds {
		eff[k] = false
		if d.marked() {
			for u := 0; u < verifUniverse; u++ {
				mu := verifMIConst(int64(u))
				eff[k] = verifOr(eff[k], verifAnd(d.hasDefault(mu), inAll(mu)))
			}
		}
		anyMarked = verifOr(anyMarked, eff[k])
	}
	// d (rules U1/U2): an atom is a default iff it is a default of every
	// (still) marked disjunction and a value of every other one
	inDefault := func(u verifMI) bool {
		r := true
		for k, d := range ds {
			r = verifAnd(r, verifOr(verifAnd(eff[k], d.hasDefault(u)), verifAnd(verifNot(eff[k]), d.has(u))))
		}
		return verifAnd(anyMarked, r)
	}
	wantV := inAll(p)
	wantD := inDefault(p)
	inV, inD, anyDefault, _, ok := verifResultSets(v, p)
	verifAssert(ok, "A04.0-result-is-atom-disjunction-or-bottom")
	verifAssert(inV == wantV, "A04.1-value-set-is-intersection-of-unions")
	if anyDefault {
		// the evaluator reports defaults: they are exactly the spec's default set
		verifAssert(anyMarked, "A04.2-defaults-only-from-surviving-marks")
		verifAssert(inD == wantD, "A04.2-default-set-per-U-and-D-rules")
	}
	// resolution: Default() yields a single atom exactly when the spec's pair
	// has exactly one default, or no default and exactly one value
	cntV, cntD := 0, 0
	for u := 0; u < verifUniverse; u++ {
		mu := verifMIConst(int64(u))
		cntV += verifIte(inAll(mu), 1, 0)
		cntD += verifIte(inDefault(mu), 1, 0)
	}
	specResolves := verifOr(cntD == 1, verifAnd(cntD == 0, cntV == 1))
	r := v.Default().DerefValue()
	if n, isNum := r.BaseValue.(*Num); isNum {
		verifReach("resolved")
		verifAssert(specResolves, "A04.3-resolves-only-when-spec-has-a-unique-choice")
		isP := verifMIEq(verifIntVal(n), p)
		verifAssert(verifImplies(wantD, isP), "A04.3-unique-default-is-the-resolved-atom")
		verifAssert(verifImplies(verifAnd(cntD == 0, wantV), isP), "A04.3-without-surviving-default-the-unique-value")
	} else if _, isBottom := r.BaseValue.(*Bottom); !isBottom {
		verifReach("unresolved")
		verifAssert(verifNot(specResolves), "A04.3-ambiguity-is-not-resolved-silently-and-unique-choice-is-resolved")
	} else {
		verifAssert(cntV == 0, "A04.1-bottom-only-if-no-common-atom")
	}
}

// Disjunctions whose disjuncts are integer atoms or numeric bounds (< <= > >=
// on a symbolic integer in 0..4), no default marks: the evaluator's
// de-duplication of partially evaluated disjuncts (isEqualNodeValue on
// lower/upper bounds) must not drop a disjunct that admits other values. For
// an arbitrary integer probe in 0..3 the result admits the probe exactly when
// every disjunction has a disjunct admitting it.

type verifBTerm struct {
	op  Op // 0: atom
	num *Num
	val Value
}

func (t verifBTerm) admits(p verifMI) bool {
	b := verifIntVal(t.num)
	switch t.op {
	case LessThanOp:
		return verifMILt(p, b)
	case LessEqualOp:
		return verifMILe(p, b)
	case GreaterThanOp:
		return verifMILt(b, p)
	case GreaterEqualOp:
		return verifMILe(b, p)
	}
	return verifMIEq(p, b)
}

// does a result disjunct admit the integer p?
func verifAdmits(x Value, p verifMI) (r, ok bool) {
	switch y := x.(type) {
	case *Num:
		return verifMIEq(verifIntVal(y), p), true
	case *BoundValue:
		n, isNum := y.Value.(*Num)
		if !isNum {
			return false, false
		}
		return verifBTerm{op: y.Op, num: n}.admits(p), true
	case *BasicType:
		return y.K&IntKind != 0, true
	case *Conjunction:
		r = true
		for _, z := range y.Values {
			a, k := verifAdmits(z, p)
			if !k {
				return false, false
			}
			r = verifAnd(r, a)
		}
		return r, true
	case *Vertex:
		y = y.DerefValue()
		if _, isB := y.BaseValue.(*Bottom); isB {
			return false, true
		}
		bv, isV := y.BaseValue.(Value)
		if !isV {
			return false, false
		}
		return verifAdmits(bv, p)
	case *Disjunction:
		for _, z := range y.Values {
			a, k := verifAdmits(z, p)
			if !k {
				return false, false
			}
			r = verifOr(r, a)
		}
		return r, true
	}
	verifSample("unexpected result disjunct")
	return false, false
}

func verifHarnessDisjunctionBounds() {
	maxTerms := verifParam("TERMS", 2)
	nd := verifParam("NDISJ", 2)
	ctx := verifNewCtx()
	ds := make([][]verifBTerm, nd)
	v := &Vertex{}
	for i := range ds {
		n := 1 + verifChoice(maxTerms)
		e := &DisjunctionExpr{}
		for j := 0; j < n; j++ {
			t := verifBTerm{num: verifSmallInt("d")}
			ops := verifNumOps[:4] // < <= > >=
			if verifParam("OPSET", 0) == 1 {
				ops = []Op{LessThanOp, GreaterThanOp}
			}
			if k := verifChoice(1 + len(ops)); k > 0 {
				t.op = ops[k-1]
				t.val = &BoundValue{Op: t.op, Value: t.num}
			} else {
				t.val = t.num
			}
			ds[i] = append(ds[i], t)
			e.Values = append(e.Values, Disjunct{Val: t.val})
		}
		v.AddConjunct(MakeRootConjunct(&Environment{}, e))
	}
	if verifParam("WITHINT", 0) == 1 {
		v.AddConjunct(MakeRootConjunct(&Environment{}, &BasicType{K: IntKind}))
	}
	v.Finalize(ctx)
	verifReach("evaluated")

	p := verifMIFresh("p")
	verifAssume(verifMILe(verifMIConst(0), p))
	verifAssume(verifMILt(p, verifMIConst(verifUniverse)))
	want := true
	for _, d := range ds {
		in := false
		for _, t := range d {
			in = verifOr(in, t.admits(p))
		}
		want = verifAnd(want, in)
	}
	got, ok := verifAdmits(v, p)
	verifAssert(ok, "A04.0-result-is-built-from-atoms-and-bounds")
	verifAssert(got == want, "A04.1-value-set-is-union-over-distributed-disjuncts")
	// resolution: a single concrete value only if it is the only admitted probe
	if n, isNum := v.Default().DerefValue().BaseValue.(*Num); isNum {
		verifReach("resolved")
		verifAssert(verifImplies(want, verifMIEq(verifIntVal(n), p)), "A04.3-resolved-value-is-the-only-member")
	}
}
