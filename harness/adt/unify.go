package adt

// Experiments with the real evaluator on scalar conjuncts.

func verifUnify(ctx *OpContext, cs ...Value) *Vertex {
	v := &Vertex{}
	for _, c := range cs {
		v.AddConjunct(MakeRootConjunct(nil, c))
	}
	v.Finalize(ctx)
	return v
}

func verifHarnessUnifyProbe() {
	ctx := verifNewCtx()
	a := &Num{K: IntKind, X: verifDec("a", 3, 0)}
	lo := &BoundValue{Op: GreaterEqualOp, Value: &Num{K: IntKind, X: verifDec("lo", 3, 0)}}
	v := verifUnify(ctx, a, lo, &BasicType{K: IntKind})
	verifReach("finalized")
	_, isErr := v.BaseValue.(*Bottom)
	want := verifSatNumBound(GreaterEqualOp, lo.Value.(*Num), a, 0)
	verifAssert(isErr == !want, "probe-unify-matches-oracle")
}
