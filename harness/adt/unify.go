package adt

// C03 / A03.3 and C01 / A01.2 on the REAL evaluator: conjuncts drawn from
// atoms, basic types and bounds are unified by Vertex.Finalize (scheduler,
// insertValueConjunct, updateNodeType, SimplifyBounds, validateValue ...);
// an arbitrary probe atom unifies with them exactly when it satisfies every
// conjunct (then the result is that atom), in every order of the conjuncts,
// with duplicated conjuncts and with an extra top.

func verifUnify(ctx *OpContext, cs ...Value) *Vertex {
	v := &Vertex{}
	for _, c := range cs {
		v.AddConjunct(MakeRootConjunct(nil, c))
	}
	v.Finalize(ctx)
	return v
}

type verifConj struct {
	val Value
	// oracle data
	kind  int // 0 atom, 1 basic type, 2 bound
	atom  verifAtom
	types Kind
	op    Op
}

var verifBasicKinds = []Kind{NullKind, BoolKind, IntKind, FloatKind, NumberKind, StringKind, BytesKind, TopKind}

// domain: 0 numbers, 1 strings/bytes, 2 everything (small)
func verifDomainAtom(tag string, domain, digits, maxExp, strLen int) verifAtom {
	switch domain {
	case 0:
		n := verifNum(tag, digits, maxExp)
		return verifAtom{kind: n.K, val: n, num: n}
	case 1:
		s := verifStringUpTo(strLen)
		if verifChoice(2) == 0 {
			return verifAtom{kind: StringKind, val: &String{Str: s}, str: s}
		}
		return verifAtom{kind: BytesKind, val: &Bytes{B: []byte(s)}, str: s}
	}
	return verifAnyAtom(tag, digits, maxExp, strLen)
}

func verifAnyConj(tag string, domain, digits, maxExp, strLen int) verifConj {
	switch verifChoice(3) {
	case 0:
		a := verifDomainAtom(tag, domain, digits, maxExp, strLen)
		return verifConj{val: a.val, kind: 0, atom: a}
	case 1:
		var k Kind
		switch domain {
		case 0:
			k = []Kind{IntKind, FloatKind, NumberKind, TopKind}[verifChoice(4)]
		case 1:
			k = []Kind{StringKind, BytesKind, StringKind | BytesKind, TopKind}[verifChoice(4)]
		default:
			k = verifBasicKinds[verifChoice(len(verifBasicKinds))]
		}
		if k == TopKind {
			return verifConj{val: &Top{}, kind: 1, types: TopKind}
		}
		return verifConj{val: &BasicType{K: k}, kind: 1, types: k}
	}
	b := verifDomainAtom(tag, domain, digits, maxExp, strLen)
	op := verifNumOps[verifChoice(len(verifNumOps))]
	if b.kind == NullKind || b.kind == BoolKind {
		verifAssume(op == NotEqualOp || op == EqualOp)
	}
	return verifConj{val: &BoundValue{Op: op, Value: b.val}, kind: 2, atom: b, op: op}
}

func verifSameAtom(a, b verifAtom, scale int) bool {
	if a.kind != b.kind {
		return false
	}
	switch a.kind {
	case NullKind:
		return true
	case BoolKind:
		return a.b == b.b
	case IntKind, FloatKind:
		return verifNumEq(a.num, b.num, scale)
	}
	return a.str == b.str
}

func verifSatConj(c verifConj, p verifAtom, scale int) bool {
	switch c.kind {
	case 0:
		return verifSameAtom(c.atom, p, scale)
	case 1:
		return c.types&p.kind != 0
	}
	return verifSatBound(c.op, c.atom, p, scale)
}

// the result of a successful unification with an atom is that atom
func verifResultIsAtom(v *Vertex, p verifAtom, scale int) bool {
	switch r := v.BaseValue.(type) {
	case *Null:
		return p.kind == NullKind
	case *Bool:
		return p.kind == BoolKind && r.B == p.b
	case *Num:
		return (p.kind == IntKind || p.kind == FloatKind) && r.K == p.kind && verifNumEq(r, p.num, scale)
	case *String:
		return p.kind == StringKind && r.Str == p.str
	case *Bytes:
		return p.kind == BytesKind && string(r.B) == p.str
	}
	return false
}

func verifIsErr(v *Vertex) bool {
	_, ok := v.BaseValue.(*Bottom)
	return ok
}

func verifHarnessUnifyExact() {
	domain := verifParam("DOMAIN", 0)
	digits := verifParam("DIGITS", 2)
	maxExp := verifParam("EXP", 1)
	strLen := verifParam("STRLEN", 1)
	n := verifParam("NCONJ", 2)
	ctx := verifNewCtx()
	cs := make([]verifConj, n)
	vals := make([]Value, n)
	for i := range cs {
		cs[i] = verifAnyConj("c", domain, digits, maxExp, strLen)
		vals[i] = cs[i].val
	}
	p := verifDomainAtom("p", domain, digits+1, maxExp, strLen+1)
	want := true
	for _, c := range cs {
		want = verifAnd(want, verifSatConj(c, p, maxExp))
	}
	// conjuncts first, then the atom
	v := verifUnify(ctx, append(append([]Value{}, vals...), p.val)...)
	verifReach("unified")
	verifAssert(verifIsErr(v) == !want, "A03.3-atom-unifies-iff-it-satisfies-every-conjunct")
	if !verifIsErr(v) {
		verifAssert(verifResultIsAtom(v, p, maxExp), "A03.3-result-is-that-atom")
	}
	// A01.2: every rotation / reversal of the conjuncts, the atom first, a duplicate, an extra top
	rev := []Value{p.val}
	for i := n - 1; i >= 0; i-- {
		rev = append(rev, vals[i])
	}
	v2 := verifUnify(verifNewCtx(), rev...)
	verifAssert(verifIsErr(v2) == verifIsErr(v), "A01.2-reversed-order-same-outcome")
	if !verifIsErr(v2) {
		verifAssert(verifResultIsAtom(v2, p, maxExp), "A01.2-reversed-order-same-value")
	}
	mid := append(append([]Value{vals[0], p.val}, vals[1:]...), vals[0], &Top{})
	v3 := verifUnify(verifNewCtx(), mid...)
	verifAssert(verifIsErr(v3) == verifIsErr(v), "A01.2-interleaved-duplicated-top-same-outcome")
	// without the atom: bottom only if no atom satisfies the conjuncts
	v4 := verifUnify(verifNewCtx(), vals...)
	if verifIsErr(v4) {
		verifAssert(!want, "A03.3-bottom-only-if-unsatisfiable")
	} else if _, isNum := v4.BaseValue.(*Num); isNum && want {
		// the evaluator pinned a single number: never a different one
		verifAssert(verifResultIsAtom(v4, p, maxExp), "A03.3-pinned-atom-is-the-only-one")
	}
}


// C01 / A01.2 on three non-concrete conjuncts: every permutation of a type and
// bounds gives the same error status (e.g. int & >=1.5 & <=1.6 fails in every
// order), and whenever some order fails no atom satisfies all three.
func verifHarnessUnifyOrder3() {
	digits := verifParam("DIGITS", 1)
	maxExp := verifParam("EXP", 1)
	var cs [3]verifConj
	for i := range cs {
		if i == 0 && verifParam("FIRSTINT", 0) == 1 {
			// quick tier: one conjunct is the type int (integer tightening of the
			// other two is where order sensitivity can arise); PERMS moves it around
			cs[i] = verifConj{val: &BasicType{K: IntKind}, kind: 1, types: IntKind}
			continue
		}
		if verifChoice(3) == 0 {
			k := []Kind{IntKind, FloatKind, NumberKind}[verifChoice(3)]
			cs[i] = verifConj{val: &BasicType{K: k}, kind: 1, types: k}
			continue
		}
		n := &Num{}
		if verifChoice(2) == 0 {
			n.K, n.X = IntKind, verifDec("c", digits, 0)
		} else {
			// half-unit fractions (exponent -1): what integer tightening is about
			n.K, n.X = FloatKind, verifDec("c", digits, 0)
			n.X.Exponent = -1
		}
		// non-negative operands keep the space small; signs are covered by UnifyExact
		verifAssume(!n.X.Negative)
		op := verifNumOps[verifChoice(5)] // < <= > >= !=
		cs[i] = verifConj{val: &BoundValue{Op: op, Value: n}, kind: 2, atom: verifAtom{kind: n.K, num: n}, op: op}
	}
	perms := [6][3]int{{0, 1, 2}, {2, 1, 0}, {1, 2, 0}, {0, 2, 1}, {1, 0, 2}, {2, 0, 1}}
	np := verifParam("PERMS", 3)
	var errs [6]bool
	for i, pm := range perms[:np] {
		v := verifUnify(verifNewCtx(), cs[pm[0]].val, cs[pm[1]].val, cs[pm[2]].val)
		errs[i] = verifIsErr(v)
	}
	verifReach("permuted")
	for i := 1; i < np; i++ {
		verifAssert(errs[i] == errs[0], "A01.2-three-conjuncts-same-error-status-in-every-order")
	}
	if errs[0] {
		p := verifNumProbe(NumberKind, digits+1, maxExp)
		pa := verifAtom{kind: FloatKind}
		_ = pa
		sat := true
		for _, c := range cs {
			switch c.kind {
			case 1:
				sat = verifAnd(sat, verifOr(verifAnd(p.isInt, c.types&IntKind != 0), verifAnd(verifNot(p.isInt), c.types&FloatKind != 0)))
			default:
				sat = verifAnd(sat, verifSatNumBoundProbe(c.op, c.atom.num, p, maxExp))
			}
		}
		verifAssert(verifNot(sat), "A03.3-three-conjuncts-bottom-only-if-unsatisfiable")
	}
}
