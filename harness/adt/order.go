package adt

// C01 (order-free accumulators): the arc-type meet and the default-mode
// combination are commutative, associative and idempotent, so the order in
// which conjuncts contribute them cannot matter. (Symmetry of bound
// simplification, A01.1, is asserted in bounds.go.)

func verifArcType(tag string) ArcType {
	t := ArcType(verifU8(tag))
	verifAssume(t <= ArcNotPresent)
	return t
}

func verifHarnessArcTypeMeet() {
	t0, t1, t2 := verifArcType("t0"), verifArcType("t1"), verifArcType("t2")
	// pending arcs take the cycle path through the scheduler: outside the kernel
	verifAssume(t0 != ArcPending)
	a := &Vertex{ArcType: t0}
	b := &Vertex{ArcType: t0}
	a.updateArcType(t1)
	a.updateArcType(t2)
	b.updateArcType(t2)
	b.updateArcType(t1)
	verifReach("updated")
	verifAssert(a.ArcType == b.ArcType, "A01.3-arc-type-order-independent")
	// it is the meet (minimum), with ArcNotPresent absorbing
	want := t0
	if t0 != ArcNotPresent {
		if t1 < want {
			want = t1
		}
		if t2 < want {
			want = t2
		}
	}
	verifAssert(a.ArcType == want, "A01.3-arc-type-is-meet")
	c := &Vertex{ArcType: t0}
	c.updateArcType(t1)
	c.updateArcType(t1)
	d := &Vertex{ArcType: t0}
	d.updateArcType(t1)
	verifAssert(c.ArcType == d.ArcType, "A01.3-arc-type-idempotent")
}

func verifMode(tag string) defaultMode {
	m := defaultMode(verifU8(tag))
	verifAssume(m <= notDefault)
	return m
}

func verifHarnessDefaultModeAlgebra() {
	a, b, c := verifMode("a"), verifMode("b"), verifMode("c")
	verifReach("modes")
	verifAssert(combineDefault(a, b) == combineDefault(b, a), "A01.4-combine-commutative")
	verifAssert(combineDefault(combineDefault(a, b), c) == combineDefault(a, combineDefault(b, c)), "A01.4-combine-associative")
	verifAssert(combineDefault(a, a) == a, "A01.4-combine-idempotent")
	da, db := verifBool("da"), verifBool("db")
	verifAssert(combineDefault2(a, b, da, db) == combineDefault2(b, a, db, da), "A01.4-combine2-commutative")
	// U1/U2 of the spec: the result is a default only if no operand excludes it
	r := combineDefault(a, b)
	verifAssert((r == notDefault) == (a == notDefault || b == notDefault), "A04.0-notdefault-absorbs")
	verifAssert((r == maybeDefault) == (a == maybeDefault && b == maybeDefault), "A04.0-maybe-is-unit")
}
