package adt

// C03 / A03.2: a bound accepts exactly the atoms of the operand's kind class
// that compare accordingly (numbers by value across int/float; strings and
// bytes bytewise; !=null admits every non-null atom); the string and int fast
// paths agree with the general path.

type verifAtom struct {
	kind Kind // NullKind, BoolKind, IntKind, FloatKind, StringKind, BytesKind
	val  Value
	num  *Num
	str  string
	b    bool
}

func verifAnyAtom(tag string, digits, maxExp, strLen int) verifAtom {
	switch verifChoice(5) {
	case 0:
		return verifAtom{kind: NullKind, val: &Null{}}
	case 1:
		b := verifBool(tag + "-bool")
		return verifAtom{kind: BoolKind, val: &Bool{B: b}, b: b}
	case 2:
		n := verifNum(tag, digits, maxExp)
		return verifAtom{kind: n.K, val: n, num: n}
	case 3:
		s := verifStringUpTo(strLen)
		return verifAtom{kind: StringKind, val: &String{Str: s}, str: s}
	default:
		s := verifStringUpTo(strLen)
		return verifAtom{kind: BytesKind, val: &Bytes{B: []byte(s)}, str: s}
	}
}

func verifStrLess(a, b string) bool { return a < b }

// verifSatBound is the oracle of C03 for a bound "op b" and an atom a.
func verifSatBound(op Op, b, a verifAtom, scale int) bool {
	if b.kind == NullKind {
		if op == NotEqualOp {
			return a.kind != NullKind
		}
		return a.kind == NullKind // ==null
	}
	isNum := func(k Kind) bool { return k == IntKind || k == FloatKind }
	switch {
	case isNum(b.kind):
		if !isNum(a.kind) {
			return false
		}
		return verifSatNumBound(op, b.num, a.num, scale)
	case b.kind != a.kind:
		return false
	case b.kind == BoolKind:
		if op == EqualOp {
			return a.b == b.b
		}
		return a.b != b.b
	}
	// strings and bytes: bytewise
	switch op {
	case LessThanOp:
		return a.str < b.str
	case LessEqualOp:
		return a.str <= b.str
	case GreaterThanOp:
		return a.str > b.str
	case GreaterEqualOp:
		return a.str >= b.str
	case NotEqualOp:
		return a.str != b.str
	}
	return a.str == b.str
}

func verifHarnessBoundValidate() {
	digits := verifParam("DIGITS", 3)
	maxExp := verifParam("EXP", 1)
	strLen := verifParam("STRLEN", 2)
	ctx := verifNewCtx()
	b := verifAnyAtom("b", digits, maxExp, strLen)
	op := verifNumOps[verifChoice(len(verifNumOps))]
	// bounds the compiler can construct: ordered comparison needs an ordered operand
	if b.kind == NullKind || b.kind == BoolKind {
		verifAssume(op == NotEqualOp || op == EqualOp)
	}
	a := verifAnyAtom("a", digits, maxExp, strLen)
	bound := &BoundValue{Op: op, Value: b.val}
	// the kind class of the bound is what the spec says
	var wantKind Kind
	switch b.kind {
	case IntKind, FloatKind:
		wantKind = NumberKind
	case NullKind:
		if op == NotEqualOp {
			wantKind = TopKind &^ NullKind
		} else {
			wantKind = NullKind
		}
	default:
		wantKind = b.kind
	}
	verifAssert(bound.Kind() == wantKind, "A03.2-bound-kind-class")
	// the evaluator intersects kinds first: validate only sees atoms of the bound's kind class
	verifAssume(a.kind&bound.Kind() != 0)
	got := bound.validate(ctx, a.val) == nil
	verifReach("validated")
	want := verifSatBound(op, b, a, maxExp)
	verifAssert(got == want, "A03.2-validate-is-set-membership")
	if a.kind == StringKind {
		verifAssert(bound.validateStr(ctx, a.str) == want, "A03.2-string-fast-path-agrees")
	}
}

func verifHarnessBoundValidateInt() {
	digits := verifParam("DIGITS", 3)
	maxExp := verifParam("EXP", 1)
	ctx := verifNewCtx()
	b := verifNum("b", digits, maxExp)
	op := verifNumOps[verifChoice(len(verifNumOps))]
	bound := &BoundValue{Op: op, Value: b}
	iv := verifMIFresh("i")
	verifAssume(verifMILt(verifMIConst(-100000), iv))
	verifAssume(verifMILt(iv, verifMIConst(100000)))
	i := verifMIToInt64InRange(iv)
	a := &Num{K: IntKind}
	a.X.SetInt64(i)
	want := verifSatNumBound(op, b, a, maxExp)
	verifReach("validated")
	verifAssert(bound.validateInt(ctx, i) == want, "A03.2-int-fast-path-agrees")
	verifAssert((bound.validate(ctx, a) == nil) == want, "A03.2-validate-int")
}
