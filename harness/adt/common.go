package adt

// Shared scaffolding for the adt harnesses: a minimal Runtime, an OpContext,
// symbolic scalar values (atoms) and the set-theoretic oracle of C03.

import (
	verifreflect "reflect"

	verifbuild "cuelang.org/go/cue/build"
	verifinternal "cuelang.org/go/internal"
	verifapd "github.com/cockroachdb/apd/v3"
)

type verifRuntime struct {
	strs []string
	next uint64
}

func (r *verifRuntime) StringToIndex(s string) int64 {
	for i, t := range r.strs {
		if t == s {
			return int64(i + 1)
		}
	}
	r.strs = append(r.strs, s)
	return int64(len(r.strs))
}
func (r *verifRuntime) IndexToString(i int64) string { return r.strs[i-1] }
func (r *verifRuntime) NextUniqueID() uint64         { r.next++; return r.next }
func (r *verifRuntime) LoadBuiltin(importPath string) *Vertex { return nil }
func (r *verifRuntime) LoadInstance(inst *verifbuild.Instance) *Vertex { return nil }
func (r *verifRuntime) StoreType(t verifreflect.Type, v *Vertex)       {}
func (r *verifRuntime) LoadType(t verifreflect.Type) (*Vertex, bool)   { return nil, false }
// production defaults (cuedebug.Config): structure sharing is on
func (r *verifRuntime) ConfigureOpCtx(ctx *OpContext) {
	ctx.Version = verifinternal.EvalV3
	ctx.Sharing = verifParam("SHARING", 1) == 1
}

func verifNewCtx() *OpContext {
	return New(nil, &Config{Runtime: &verifRuntime{}})
}

// verifNum: an arbitrary int (exponent 0) or float (exponent in [-maxExp,maxExp])
// with |coefficient| < 10^digits.
func verifNum(tag string, digits, maxExp int) *Num {
	n := &Num{}
	if verifChoice(2) == 0 {
		n.K = IntKind
		n.X = verifDec(tag, digits, 0)
	} else {
		n.K = FloatKind
		n.X = verifDec(tag, digits, maxExp)
	}
	return n
}

// verifNumLess / verifNumEq compare by exact value, independently of apd.Cmp.
func verifNumLess(a, b *Num, scale int) bool {
	return verifMILt(verifDecVal(&a.X, scale), verifDecVal(&b.X, scale))
}
func verifNumEq(a, b *Num, scale int) bool {
	return verifMIEq(verifDecVal(&a.X, scale), verifDecVal(&b.X, scale))
}

// verifProbe is an arbitrary number given directly by its scaled value
// val*10^scale (an integer); isInt says its kind. It is never handed to the
// code under test, so it needs no Decimal.
type verifProbe struct {
	scaled verifMI
	isInt  bool
}

// verifNumProbe: an arbitrary probe number of a kind in k with at most `scale`
// decimal places and |val| < 10^digits.
func verifNumProbe(k Kind, digits, scale int) verifProbe {
	v := verifMIFresh("p")
	lim := verifMIPow10(digits + scale)
	verifAssume(verifMILt(verifMINeg(lim), v))
	verifAssume(verifMILt(v, lim))
	var p verifProbe
	p.scaled = v
	switch k {
	case IntKind:
		p.isInt = true
	case FloatKind:
		p.isInt = false
	default:
		p.isInt = verifBool("p-is-int")
	}
	// an int has no decimal places
	integral := verifMIEq(verifMIModE(v, verifMIPow10(scale)), verifMIConst(0))
	verifAssume(verifImplies(p.isInt, integral))
	return p
}

func verifSatNumBoundProbe(op Op, v *Num, p verifProbe, scale int) bool {
	b := verifDecVal(&v.X, scale)
	switch op {
	case LessThanOp:
		return verifMILt(p.scaled, b)
	case LessEqualOp:
		return verifMILe(p.scaled, b)
	case GreaterThanOp:
		return verifMILt(b, p.scaled)
	case GreaterEqualOp:
		return verifMILe(b, p.scaled)
	case NotEqualOp:
		return verifNot(verifMIEq(p.scaled, b))
	case EqualOp:
		return verifMIEq(p.scaled, b)
	}
	verifUnsupported("oracle: unexpected op")
	return false
}

// verifSatNumBound: does the number p satisfy the bound "op v"? (C03 oracle:
// a numeric bound admits every number, int or float, that compares so by value.)
func verifSatNumBound(op Op, v, p *Num, scale int) bool {
	switch op {
	case LessThanOp:
		return verifNumLess(p, v, scale)
	case LessEqualOp:
		return verifNot(verifNumLess(v, p, scale))
	case GreaterThanOp:
		return verifNumLess(v, p, scale)
	case GreaterEqualOp:
		return verifNot(verifNumLess(p, v, scale))
	case NotEqualOp:
		return verifNot(verifNumEq(p, v, scale))
	case EqualOp:
		return verifNumEq(p, v, scale)
	}
	verifUnsupported("oracle: unexpected op")
	return false
}

var verifNumOps = []Op{LessThanOp, LessEqualOp, GreaterThanOp, GreaterEqualOp, NotEqualOp, EqualOp}

var _ = verifapd.Finite
