package adt

// C05 (periphery): pattern-constraint matching and label classes.
//
// A05.1 matchPattern on a pattern tree (depth <= 2 over top, basic types,
// string/number bounds, exact strings/ints, & and |) and a symbolic regular
// label agrees with "the label, read as an atom, satisfies the pattern" under
// the C03 oracle; non-regular labels never match.
// A05.2 allowedInClosed(f) <=> f is hidden, definition or let, for every
// Feature; MakeLabel/Index/Typ round-trip.

type verifPat struct {
	val Value
	// oracle
	kind  int // 0 top, 1 basic type, 2 bound, 3 exact, 4 and, 5 or
	types Kind
	op    Op
	atom  verifAtom
	a, b  *verifPat
}

func verifLeafPattern(strLen int) *verifPat {
	switch verifChoice(4) {
	case 0:
		return &verifPat{val: &Top{}, kind: 0}
	case 1:
		k := []Kind{StringKind, IntKind, NumberKind, BoolKind, StringKind | IntKind}[verifChoice(5)]
		return &verifPat{val: &BasicType{K: k}, kind: 1, types: k}
	case 2:
		op := verifNumOps[verifChoice(len(verifNumOps))]
		if verifChoice(2) == 0 {
			s := verifStringUpTo(strLen)
			return &verifPat{val: &BoundValue{Op: op, Value: &String{Str: s}}, kind: 2, op: op, atom: verifAtom{kind: StringKind, str: s}}
		}
		n := &Num{K: IntKind, X: verifDec("pb", 1, 0)}
		return &verifPat{val: &BoundValue{Op: op, Value: n}, kind: 2, op: op, atom: verifAtom{kind: IntKind, num: n}}
	}
	if verifChoice(2) == 0 {
		s := verifStringUpTo(strLen)
		return &verifPat{val: &String{Str: s}, kind: 3, atom: verifAtom{kind: StringKind, str: s}}
	}
	n := &Num{K: IntKind, X: verifDec("pe", 1, 0)}
	return &verifPat{val: n, kind: 3, atom: verifAtom{kind: IntKind, num: n}}
}

func verifAnyPattern(strLen int) *verifPat {
	switch verifChoice(3) {
	case 0:
		return verifLeafPattern(strLen)
	case 1:
		a, b := verifLeafPattern(strLen), verifLeafPattern(strLen)
		return &verifPat{val: &Conjunction{Values: []Value{a.val, b.val}}, kind: 4, a: a, b: b}
	}
	a, b := verifLeafPattern(strLen), verifLeafPattern(strLen)
	return &verifPat{val: &Disjunction{Values: []Value{a.val, b.val}}, kind: 5, a: a, b: b}
}

func verifSatPattern(p *verifPat, label verifAtom) bool {
	switch p.kind {
	case 0:
		return true
	case 1:
		return p.types&label.kind != 0
	case 2:
		return verifSatBound(p.op, p.atom, label, 0)
	case 3:
		return verifSameAtom(p.atom, label, 0)
	case 4:
		return verifAnd(verifSatPattern(p.a, label), verifSatPattern(p.b, label))
	}
	return verifOr(verifSatPattern(p.a, label), verifSatPattern(p.b, label))
}

func verifHarnessMatchPattern() {
	strLen := verifParam("STRLEN", 1)
	rt := &verifRuntime{}
	ctx := New(nil, &Config{Runtime: rt})
	var f Feature
	var label verifAtom
	if verifChoice(2) == 0 {
		s := verifStringUpTo(strLen + 1)
		rt.strs = []string{s} // the label string lives at index 1
		f, _ = MakeLabel(nil, 1, StringLabel)
		label = verifAtom{kind: StringKind, str: s}
	} else {
		n := &Num{K: IntKind, X: verifDec("idx", 1, 0)}
		verifAssume(!n.X.Negative)
		i, _ := n.X.Int64()
		f, _ = MakeLabel(nil, i, IntLabel)
		label = verifAtom{kind: IntKind, num: n}
	}
	p := verifAnyPattern(strLen)
	got := matchPattern(ctx, p.val, f)
	verifReach("matched")
	verifAssert(got == verifSatPattern(p, label), "A05.1-pattern-matches-iff-label-satisfies-it")
	// non-regular labels never match, whatever the pattern
	for _, t := range []FeatureType{DefinitionLabel, HiddenLabel, HiddenDefinitionLabel, LetLabel} {
		g, _ := MakeLabel(nil, 1, t)
		verifAssert(!matchPattern(ctx, p.val, g), "A05.1-non-regular-label-never-matches")
	}
}

func verifHarnessFeatureClasses() {
	f := Feature(verifU32("feature"))
	t := f.Typ()
	verifReach("feature")
	verifAssert(allowedInClosed(f) == (t == HiddenLabel || t == DefinitionLabel || t == HiddenDefinitionLabel || t == LetLabel), "A05.2-allowed-in-closed-iff-hidden-def-let")
	verifAssert(f.IsRegular() == (t == StringLabel || t == IntLabel), "A05.2-regular-iff-string-or-int")
	idx := verifI64("index")
	ft := FeatureType(verifU8("type"))
	verifAssume(ft >= StringLabel && ft <= LetLabel)
	g, err := MakeLabel(nil, idx, ft)
	if err == nil {
		verifAssert(int64(g.Index()) == idx && g.Typ() == ft, "A05.2-make-label-roundtrip")
		verifAssert(idx >= 0 && idx < MaxIndex, "A05.2-index-in-range")
	} else {
		verifAssert(idx < 0 || idx >= MaxIndex, "A05.2-error-only-out-of-range")
	}
}
