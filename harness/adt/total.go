package adt

// C02 (scalar operator kernel): BinOp on every pair of scalar operand kinds
// and every binary operator the compiler constructs returns a value or a
// *Bottom; it never panics, indexes out of range or dereferences nil.

var verifAllBinOps = []Op{
	EqualOp, NotEqualOp, LessThanOp, LessEqualOp, GreaterThanOp, GreaterEqualOp,
	BoolAndOp, BoolOrOp, AddOp, SubtractOp, MultiplyOp,
}

func verifHarnessBinOpTotal() {
	digits := verifParam("DIGITS", 3)
	maxExp := verifParam("EXP", 1)
	strLen := verifParam("STRLEN", 2)
	ctx := verifNewCtx()
	a := verifAnyAtom("a", digits, maxExp, strLen)
	b := verifAnyAtom("b", digits, maxExp, strLen)
	op := verifAllBinOps[verifChoice(len(verifAllBinOps))]
	// string/bytes repetition counts are bounded by MaxRepeatCount in BinOp; keep
	// the executor's allocation small
	if op == MultiplyOp && (a.kind == StringKind || a.kind == BytesKind || b.kind == StringKind || b.kind == BytesKind) {
		for _, n := range []verifAtom{a, b} {
			if n.kind == IntKind {
				verifAssume(verifMILt(verifDecVal(&n.num.X, 0), verifMIConst(4)))
			}
		}
	}
	r := BinOp(ctx, nil, op, a.val, b.val)
	verifReach("returned")
	verifAssert(r != nil, "A02.1-binop-returns-a-value")
	switch r.(type) {
	case *Bottom, *Bool, *Num, *String, *Bytes, *Null:
	default:
		verifAssert(false, "A02.1-binop-result-is-scalar-or-bottom")
	}
}
