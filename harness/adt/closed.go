package adt

// C05 on the REAL evaluator's closedness bookkeeping (closeContext / reqSets,
// checkTypos, pattern constraints, ellipsis, embeddings): a program
//
//	#S1: schema1
//	#S2: schema2
//	x:   L & R & data
//
// is built directly as ADT (what the compiler emits for it) and evaluated by
// Vertex.Finalize. L is #S1, the open literal schema1, or the embedding
// {#S1, c: 1}; R is #S2 or the open literal schema2.
//
//	schema ::= { a-decl? b-decl? ([string]: int)? (...)? }     (... also in open literals)
//	a-decl ::= a: <k | a?: <k | a!: <k      (k a symbolic integer in 0..3)
//	b-decl ::= b?: int
//	data   ::= subset of { a: n, b: 1, c: 1 }   (n a symbolic integer in 0..3)
//
// The unification must fail exactly when some field of the result is not
// admitted by a closed conjunct, or the data value of a violates a declared
// bound (decided by the solver).

type verifSchema struct {
	def      bool // referenced as a definition (closed) or written as an open literal
	a        int  // 0 absent, 1 regular, 2 optional, 3 required
	b        bool // b?: int
	pattern  bool
	ellipsis bool
	k        *Num
}

func verifGenSchema(forceDef bool) verifSchema {
	var s verifSchema
	s.def = forceDef || verifChoice(2) == 1
	s.a = verifChoice(4)
	if verifParam("B", 1) == 1 {
		s.b = verifChoice(2) == 1
	}
	s.pattern = verifChoice(2) == 1
	// "..." opens a definition; in an open literal it changes nothing (and must not)
	s.ellipsis = verifChoice(2) == 1
	if s.a != 0 {
		s.k = verifSmallInt("k")
	}
	return s
}

type verifLabels struct{ a, b, c, s1, s2, x Feature }

func (s verifSchema) lit(l verifLabels) *StructLit {
	lit := &StructLit{}
	if s.a != 0 {
		at := []ArcType{ArcMember, ArcMember, ArcOptional, ArcRequired}[s.a]
		lit.Decls = append(lit.Decls, &Field{Label: l.a, ArcType: at, Value: &BoundValue{Op: LessThanOp, Value: s.k}})
	}
	if s.b {
		lit.Decls = append(lit.Decls, &Field{Label: l.b, ArcType: ArcOptional, Value: &BasicType{K: IntKind}})
	}
	if s.pattern {
		lit.Decls = append(lit.Decls, &BulkOptionalField{Filter: &BasicType{K: StringKind}, Value: &BasicType{K: IntKind}})
	}
	if s.ellipsis {
		lit.Decls = append(lit.Decls, &Ellipsis{})
	}
	return lit
}

func (s verifSchema) closed() bool { return s.def && !s.ellipsis }

// admits field i (0 a, 1 b, 2 c)
func (s verifSchema) allows(i int) bool {
	if !s.closed() || s.pattern {
		return true
	}
	switch i {
	case 0:
		return s.a != 0
	case 1:
		return s.b
	}
	return false
}

func verifTreeHasErr(v *Vertex) bool {
	v = v.DerefValue()
	if _, isB := v.BaseValue.(*Bottom); isB {
		return true
	}
	for _, a := range v.Arcs {
		if verifTreeHasErr(a) {
			return true
		}
	}
	return false
}

func verifOne() *Num {
	n := &Num{K: IntKind}
	n.X.Form = 0
	verifMISet(&n.X.Coeff, verifMIConst(1))
	return n
}

func verifHarnessClosedStruct() {
	rt := &verifRuntime{}
	def := func(s string) Feature {
		f, _ := MakeLabel(nil, rt.StringToIndex(s), DefinitionLabel)
		return f
	}
	l := verifLabels{a: MakeStringLabel(rt, "a"), b: MakeStringLabel(rt, "b"), c: MakeStringLabel(rt, "c"),
		s1: def("#S1"), s2: def("#S2"), x: MakeStringLabel(rt, "x")}
	s1, s2 := verifGenSchema(false), verifGenSchema(verifParam("S2DEF", 0) == 1)
	embed := false
	if s1.def {
		embed = verifChoice(2) == 1
	}
	// SAME=1: R may be a second reference to #S1 (the same definition twice)
	same := false
	if verifParam("SAME", 0) == 1 && s1.def && s2.def {
		same = verifChoice(2) == 1
		if same {
			s2 = s1
		}
	}
	// {#S, c: 1} & #S: the second reference to the closed #S does not admit c
	verifPublish("embedding-unified-with-a-second-reference-to-the-same-closed-definition", embed && same && s1.closed() && !s1.pattern)
	var data [3]bool
	for i := range data {
		if i == 1 && verifParam("B", 1) == 0 {
			continue
		}
		data[i] = verifChoice(2) == 1
	}
	n := verifSmallInt("n")
	d := &StructLit{}
	if data[0] {
		d.Decls = append(d.Decls, &Field{Label: l.a, Value: n})
	}
	if data[1] {
		d.Decls = append(d.Decls, &Field{Label: l.b, Value: verifOne()})
	}
	if data[2] {
		d.Decls = append(d.Decls, &Field{Label: l.c, Value: verifOne()})
	}
	var lhs, rhs Expr
	switch {
	case embed:
		lhs = &StructLit{Decls: []Decl{&FieldReference{UpCount: 1, Label: l.s1}, &Field{Label: l.c, Value: verifOne()}}}
	case s1.def:
		lhs = &FieldReference{Label: l.s1}
	default:
		lhs = s1.lit(l)
	}
	if same {
		rhs = &FieldReference{Label: l.s1}
	} else if s2.def {
		rhs = &FieldReference{Label: l.s2}
	} else {
		rhs = s2.lit(l)
	}
	root := &StructLit{Decls: []Decl{
		&Field{Label: l.s1, Value: s1.lit(l)},
		&Field{Label: l.s2, Value: s2.lit(l)},
		&Field{Label: l.x, Value: &BinaryExpr{Op: AndOp, X: &BinaryExpr{Op: AndOp, X: lhs, Y: rhs}, Y: d}},
	}}
	ctx := New(nil, &Config{Runtime: rt})
	v := &Vertex{}
	v.AddConjunct(MakeRootConjunct(&Environment{}, root))
	v.Finalize(ctx)
	x := v.Lookup(l.x)
	verifReach("evaluated")
	if x == nil {
		verifAssert(false, "A05.0-x-exists")
		return
	}
	got := x.Err(ctx) != nil // what cue.Value.Err reports

	// oracle: which fields does the result have
	present := data
	if s1.a == 1 || s1.a == 3 || s2.a == 1 || s2.a == 3 {
		// a regular field is a field of the result; a required field
		// constraint must be admissible as well
		present[0] = true
	}
	if embed {
		present[2] = true
	}
	want := false
	for i := 0; i < 3; i++ {
		if !present[i] {
			continue
		}
		allow1 := s1.allows(i)
		if embed && i == 2 {
			allow1 = true // declared next to the embedding
		}
		if !allow1 || !s2.allows(i) {
			want = true
		}
	}
	// value constraint on a
	if data[0] {
		nv := verifIntVal(n)
		if s1.a != 0 {
			want = verifOr(want, verifNot(verifMILt(nv, verifIntVal(s1.k))))
		}
		if s2.a != 0 {
			want = verifOr(want, verifNot(verifMILt(nv, verifIntVal(s2.k))))
		}
	}
	verifAssert(got == want, "A05.3-unification-fails-iff-a-field-is-not-admitted-or-violates-its-constraint")
	if !got && data[0] {
		a := x.Lookup(l.a)
		verifAssert(a != nil, "A05.3-data-field-survives")
		if a != nil {
			r, isNum := a.BaseValue.(*Num)
			verifAssert(isNum && verifMIEq(verifIntVal(r), verifIntVal(n)), "A05.3-data-field-keeps-its-value")
		}
	}
}
