package adt

// C03 / A03.1 (and C01 / A01.1): SimplifyBounds on two numeric bounds is exact
// set intersection on the atoms of the node's kind, and symmetric.

func verifHarnessSimplifyBoundsNum() {
	digits := verifParam("DIGITS", 4)
	maxExp := verifParam("EXP", 1)
	ctx := verifNewCtx()
	k := []Kind{IntKind, FloatKind, NumberKind}[verifChoice(3)]
	x := &BoundValue{Op: verifNumOps[verifChoice(len(verifNumOps))], Value: verifNum("a", digits, maxExp)}
	y := &BoundValue{Op: verifNumOps[verifChoice(len(verifNumOps))], Value: verifNum("b", digits, maxExp)}
	r := SimplifyBounds(ctx, k, x, y)
	verifReach("simplified")
	// probe atom of a kind in k
	p := verifNumProbe(k, digits+2, maxExp)
	sx := verifSatNumBoundProbe(x.Op, x.Value.(*Num), p, maxExp)
	sy := verifSatNumBoundProbe(y.Op, y.Value.(*Num), p, maxExp)
	switch r := r.(type) {
	case nil:
		// both bounds are kept: always exact
	case *BoundValue:
		if r == x {
			verifAssert(verifImplies(sx, sy), "A03.1-kept-x-implies-y")
		} else {
			verifAssert(r == y, "A03.1-result-is-an-operand")
			verifAssert(verifImplies(sy, sx), "A03.1-kept-y-implies-x")
		}
	case *Bottom:
		verifAssert(verifNot(verifAnd(sx, sy)), "A03.1-bottom-only-if-empty")
	default:
		verifAssert(false, "A03.1-result-shape")
	}
	// A01.1: symmetry of the denotation
	r2 := SimplifyBounds(ctx, k, y, x)
	_, b1 := r.(*Bottom)
	_, b2 := r2.(*Bottom)
	verifAssert(b1 == b2, "A01.1-bottom-symmetric")
}

// String and bytes bounds (k == StringKind / BytesKind) and mixed != / ==.
func verifHarnessSimplifyBoundsStr() {
	strLen := verifParam("STRLEN", 2)
	ctx := verifNewCtx()
	isBytes := verifChoice(2) == 1
	k := StringKind
	if isBytes {
		k = BytesKind
	}
	mk := func() (Value, string) {
		s := verifStringUpTo(strLen)
		if isBytes {
			return &Bytes{B: []byte(s)}, s
		}
		return &String{Str: s}, s
	}
	xv, xs := mk()
	yv, ys := mk()
	x := &BoundValue{Op: verifNumOps[verifChoice(len(verifNumOps))], Value: xv}
	y := &BoundValue{Op: verifNumOps[verifChoice(len(verifNumOps))], Value: yv}
	r := SimplifyBounds(ctx, k, x, y)
	verifReach("simplified")
	p := verifStringUpTo(strLen + 1)
	sat := func(op Op, b string) bool {
		switch op {
		case LessThanOp:
			return p < b
		case LessEqualOp:
			return p <= b
		case GreaterThanOp:
			return p > b
		case GreaterEqualOp:
			return p >= b
		case NotEqualOp:
			return p != b
		}
		return p == b
	}
	sx, sy := sat(x.Op, xs), sat(y.Op, ys)
	switch r := r.(type) {
	case nil:
	case *BoundValue:
		if r == x {
			verifAssert(verifImplies(sx, sy), "A03.1-str-kept-x-implies-y")
		} else {
			verifAssert(r == y, "A03.1-str-result-is-an-operand")
			verifAssert(verifImplies(sy, sx), "A03.1-str-kept-y-implies-x")
		}
	case *Bottom:
		verifAssert(verifNot(verifAnd(sx, sy)), "A03.1-str-bottom-only-if-empty")
	default:
		verifAssert(false, "A03.1-str-result-shape")
	}
	r2 := SimplifyBounds(ctx, k, y, x)
	_, b1 := r.(*Bottom)
	_, b2 := r2.(*Bottom)
	verifAssert(b1 == b2, "A01.1-str-bottom-symmetric")
}
