package format

// C08 on the real formatter (format.Source: parser, then by default the
// internal/pretty printer):
// a source is a fixed skeleton of tokens with symbolic bytes in the gaps
// between them (so blanks, tabs, newlines, blank lines, commas, comment starts
// and stray bytes all occur) or an arbitrary short byte string. For every
// source that parses:
//
//	A08.1  Source succeeds and its output parses;
//	A08.2  the output parses to the same syntax tree as the input: same nodes
//	       in the same shape, same identifiers, literals (numbers by value),
//	       operators, field constraints, attributes, and the same comment
//	       groups (text, doc/line flags, position index) on the same nodes;
//	A08.3  formatting the output again returns it unchanged.

import (
	verifast "cuelang.org/go/cue/ast"
	verifliteral "cuelang.org/go/cue/literal"
	verifparser "cuelang.org/go/cue/parser"
	veriftoken "cuelang.org/go/cue/token"
	verifapd "github.com/cockroachdb/apd/v3"
)

type verifFlat struct {
	n     verifast.Node
	depth int
}

func verifFlatten(root verifast.Node) []verifFlat {
	var out []verifFlat
	depth := 0
	verifast.Walk(root, func(n verifast.Node) bool {
		out = append(out, verifFlat{n, depth})
		depth++
		return true
	}, func(verifast.Node) { depth-- })
	return out
}

// same number: equal text, or the same kind of number with the same value
// (the formatter pads dots, writes 0o for a leading 0 and lowers the exponent
// marker)
func verifSameNumber(a, b string) bool {
	if a == b {
		return true
	}
	var ia, ib verifliteral.NumInfo
	if verifliteral.ParseNum(a, &ia) != nil || verifliteral.ParseNum(b, &ib) != nil {
		return false
	}
	var da, db verifapd.Decimal
	if ia.Decimal(&da) != nil || ib.Decimal(&db) != nil {
		return false
	}
	return ia.IsInt() == ib.IsInt() && da.Cmp(&db) == 0
}

// verifSameNode compares the attributes of two nodes of the syntax tree
// (children are compared by the caller through the flattened lists).
func verifSameNode(a, b verifast.Node) bool {
	switch x := a.(type) {
	case *verifast.File:
		_, ok := b.(*verifast.File)
		return ok
	case *verifast.Ident:
		y, ok := b.(*verifast.Ident)
		return ok && x.Name == y.Name
	case *verifast.BasicLit:
		y, ok := b.(*verifast.BasicLit)
		if !ok || x.Kind != y.Kind {
			return false
		}
		if x.Kind == veriftoken.INT || x.Kind == veriftoken.FLOAT {
			return verifSameNumber(x.Value, y.Value)
		}
		return x.Value == y.Value
	case *verifast.Field:
		y, ok := b.(*verifast.Field)
		return ok && x.Constraint == y.Constraint
	case *verifast.UnaryExpr:
		y, ok := b.(*verifast.UnaryExpr)
		return ok && x.Op == y.Op
	case *verifast.BinaryExpr:
		y, ok := b.(*verifast.BinaryExpr)
		return ok && x.Op == y.Op
	case *verifast.PostfixExpr:
		y, ok := b.(*verifast.PostfixExpr)
		return ok && x.Op == y.Op
	case *verifast.Attribute:
		y, ok := b.(*verifast.Attribute)
		return ok && x.Text == y.Text
	case *verifast.CommentGroup:
		y, ok := b.(*verifast.CommentGroup)
		return ok && x.Doc == y.Doc && x.Line == y.Line && x.Position == y.Position
	case *verifast.Comment:
		y, ok := b.(*verifast.Comment)
		return ok && x.Text == y.Text
	case *verifast.StructLit:
		_, ok := b.(*verifast.StructLit)
		return ok
	case *verifast.ListLit:
		_, ok := b.(*verifast.ListLit)
		return ok
	case *verifast.Ellipsis:
		_, ok := b.(*verifast.Ellipsis)
		return ok
	case *verifast.ParenExpr:
		_, ok := b.(*verifast.ParenExpr)
		return ok
	case *verifast.SelectorExpr:
		_, ok := b.(*verifast.SelectorExpr)
		return ok
	case *verifast.IndexExpr:
		_, ok := b.(*verifast.IndexExpr)
		return ok
	case *verifast.SliceExpr:
		_, ok := b.(*verifast.SliceExpr)
		return ok
	case *verifast.CallExpr:
		_, ok := b.(*verifast.CallExpr)
		return ok
	case *verifast.Interpolation:
		_, ok := b.(*verifast.Interpolation)
		return ok
	case *verifast.EmbedDecl:
		_, ok := b.(*verifast.EmbedDecl)
		return ok
	case *verifast.ImportDecl:
		_, ok := b.(*verifast.ImportDecl)
		return ok
	case *verifast.ImportSpec:
		_, ok := b.(*verifast.ImportSpec)
		return ok
	case *verifast.Package:
		_, ok := b.(*verifast.Package)
		return ok
	case *verifast.Alias:
		_, ok := b.(*verifast.Alias)
		return ok
	case *verifast.LetClause:
		_, ok := b.(*verifast.LetClause)
		return ok
	case *verifast.BottomLit:
		_, ok := b.(*verifast.BottomLit)
		return ok
	case *verifast.BadExpr:
		_, ok := b.(*verifast.BadExpr)
		return ok
	case *verifast.BadDecl:
		_, ok := b.(*verifast.BadDecl)
		return ok
	case *verifast.Comprehension:
		_, ok := b.(*verifast.Comprehension)
		return ok
	case *verifast.ForClause:
		_, ok := b.(*verifast.ForClause)
		return ok
	case *verifast.IfClause:
		_, ok := b.(*verifast.IfClause)
		return ok
	}
	verifUnsupported("syntax node kind not covered by the comparison")
	return false
}

var verifSkeletons = [][]string{
	{"a:", "1", "\nb:", "2"},
	{"a:", "{", "b:", "1", "}"},
	{"[", "1,", "2", "]"},
	{"a:", "1", "//c", "\nb:", "2"},
	{"//c", "\na:", "1"},
	{"a:", "b:", "1"},
	{"a:", "1", "&", "2"},
	{"{", "a:", "1", "}"},
	{"a:", "1", "|", "*2"},
	{"import", "\"x\""},
	{"package", "p", "\na:", "1"},
	{"a:", "[", "]"},
	{"@a()", "\na:", "1", "@b()"},
}

func verifHarnessFormatIdempotent() {
	var src []byte
	if t := verifParam("T", -2); t == -2 {
		src = verifBytesUpTo(verifParam("N", 3))
	} else {
		if t < 0 {
			t = verifChoice(len(verifSkeletons))
		}
		if verifParam("NC", 0) == 1 {
			// skeletons with a comment are left out: see DESIGN.md section 8, item 12
			verifAssume(t != 3 && t != 4)
		}
		sk := verifSkeletons[t]
		g := verifParam("G", 1) // symbolic bytes per gap
		gaps := verifParam("GAPS", len(sk)+1)
		// PAIR=1: exactly two gaps are symbolic; which two is an explored choice.
		gi, gj := -1, -1
		if verifParam("PAIR", 0) == 1 {
			gaps = 0
			gi = verifChoice(len(sk))
			gj = gi + 1 + verifChoice(len(sk)-gi)
		}
		for i := 0; i <= len(sk); i++ {
			if i < gaps || i == gi || i == gj {
				src = append(src, verifBytesUpTo(g)...)
			} else if i > 0 && i < len(sk) {
				src = append(src, ' ')
			}
			if i < len(sk) {
				src = append(src, sk[i]...)
			}
		}
	}
	f1, err := verifparser.ParseFile("x.cue", src, verifparser.ParseComments)
	if err != nil {
		return
	}
	verifReach("parses")
	out, err := Source(src)
	verifAssert(err == nil, "A08.1-formatting-a-parsable-file-succeeds")
	if err != nil {
		return
	}
	f2, perr := verifparser.ParseFile("x.cue", out, verifparser.ParseComments)
	verifAssert(perr == nil, "A08.1-output-parses")
	if perr == nil {
		a, b := verifFlatten(f1), verifFlatten(f2)
		verifAssert(len(a) == len(b), "A08.2-same-number-of-syntax-nodes")
		if len(a) == len(b) {
			for i := range a {
				verifAssert(a[i].depth == b[i].depth, "A08.2-same-tree-shape")
				verifAssert(verifSameNode(a[i].n, b[i].n), "A08.2-same-node-kind-literal-operator-comment")
			}
		}
	}
	out2, err2 := Source(out)
	verifAssert(err2 == nil, "A08.3-formatting-the-output-succeeds")
	if err2 == nil {
		verifAssert(string(out2) == string(out), "A08.3-idempotent")
	}
	verifReach("formatted")
}
