package ast

// C09 / A09.4 (also A07.2, A10.3): string labels survive NewStringLabel /
// LabelName; unquoted labels are plain regular identifiers; CUE's and Go's
// unquoters agree wherever both accept (LabelName and cue fmt -s rely on
// strconv.Unquote for CUE string literals).

import (
	verifstrconv2 "strconv"
	verifutf8 "unicode/utf8"

	verifliteral "cuelang.org/go/cue/literal"
)

//verif:summarize cuelang.org/go/cue/literal.unhex
//verif:summarize strconv.unhex

func verifHarnessLabelRoundTrip() {
	n := verifParam("N", 3)
	s := verifStringUpTo(n)
	verifAssume(verifutf8.ValidString(s))
	l := NewStringLabel(s)
	name, isIdent, err := LabelName(l)
	verifReach("labelled")
	verifAssert(err == nil, "A09.4-label-valid")
	verifAssert(name == s, "A09.4-label-name-roundtrip")
	if !StringLabelNeedsQuoting(s) {
		verifReach("bare-ident")
		verifAssert(isIdent, "A09.4-unquoted-is-ident")
		verifAssert(len(s) > 0 && s[0] != '#' && s[0] != '_', "A09.4-unquoted-is-regular")
		verifAssert(IsValidIdent(s), "A09.4-unquoted-is-valid-ident")
	} else {
		verifAssert(!isIdent, "A09.4-quoted-is-not-ident")
	}
}

func verifHarnessUnquotersAgree() {
	n := verifParam("N", 3)
	lit := `"` + verifStringUpTo(n) + `"`
	v1, e1 := verifliteral.Unquote(lit)
	v2, e2 := verifstrconv2.Unquote(lit)
	verifReach("unquoted")
	// known-finding region predicate
	cr := false
	for i := 0; i < len(lit); i++ {
		cr = verifOr(cr, lit[i] == '\r')
	}
	verifPublish("literal-contains-raw-CR", cr)
	if e1 == nil && e2 == nil {
		verifReach("both-accept")
		verifAssert(v1 == v2, "A09.4-cue-and-go-unquote-agree")
	}
}
