package cue

// C05 on the REAL pipeline (parser, compiler, evaluator with its closedness
// bookkeeping - closeContext, typo check, pattern constraints): a generated
// program unifies two schemas and a data struct; the unification fails exactly
// when some field of the result is not allowed by some closed conjunct.
//
// Grammar (every combination is explored):
//   schema  ::= { a-decl? b-decl? pattern? ellipsis? }    as definition #S (closed),
//               as close({...}), or as a plain open struct
//   x-decl  ::= "x: int" | "x?: int" | "x!: int"   (absent, regular, optional, required)
//   pattern ::= "[string]: int"
//   data    ::= subset of { a: 1, b: 1, c: 1 }
//   value   ::= S1 & S2 & data      or      {S1, c: 1} & S2 & data'   (embedding)

import (
	verifruntime "cuelang.org/go/internal/core/runtime"
)

type verifSchema struct {
	kind    int    // 0 open struct, 1 definition, 2 close()
	decl    [2]int // for a, b: 0 absent, 1 regular, 2 optional, 3 required
	pattern bool
	ellipsis bool
}

func verifGenSchema() verifSchema {
	var s verifSchema
	s.kind = verifChoice(3)
	s.decl[0] = verifChoice(4)
	s.decl[1] = verifChoice(4)
	s.pattern = verifChoice(2) == 1
	if s.kind == 1 {
		s.ellipsis = verifChoice(2) == 1 // "..." is only meaningful in a definition
	}
	return s
}

func (s verifSchema) body() string {
	src := "{"
	names := [2]string{"a", "b"}
	marks := [4]string{"", "", "?", "!"}
	for i := 0; i < 2; i++ {
		if s.decl[i] != 0 {
			src += names[i] + marks[s.decl[i]] + ": int, "
		}
	}
	if s.pattern {
		src += "[string]: int, "
	}
	if s.ellipsis {
		src += "..., "
	}
	return src + "}"
}

// closed reports whether the conjunct restricts the set of fields
func (s verifSchema) closed() bool { return s.kind != 0 && !s.ellipsis }

// allows: field i (0 a, 1 b, 2 c) is admitted by this conjunct
func (s verifSchema) allows(i int) bool {
	if !s.closed() || s.pattern {
		return true
	}
	return i < 2 && s.decl[i] != 0
}

func verifHarnessClosedness() {
	s1, s2 := verifGenSchema(), verifGenSchema()
	embed := verifChoice(2) == 1 // {S1, c: 1}: the embedding's struct also declares c
	var data [3]bool
	for i := range data {
		data[i] = verifChoice(2) == 1
	}
	ref := func(name string, s verifSchema) string {
		switch s.kind {
		case 1:
			return "#" + name
		case 2:
			return "close(" + s.body() + ")"
		}
		return s.body()
	}
	src := "#S1: " + s1.body() + "\n#S2: " + s2.body() + "\n"
	lhs := ref("S1", s1)
	if embed {
		lhs = "{" + lhs + ", c: 1}"
	}
	d := "{"
	names := [3]string{"a", "b", "c"}
	for i, on := range data {
		if on {
			d += names[i] + ": 1, "
		}
	}
	d += "}"
	src += "x: " + lhs + " & " + ref("S2", s2) + " & " + d + "\n"
	verifSample(src)

	ctx := (*Context)(verifruntime.New())
	v := ctx.CompileString(src)
	x := v.LookupPath(ParsePath("x"))
	verifReach("evaluated")
	got := x.Err() != nil

	// oracle: fields present in the result
	var present [3]bool
	for i := 0; i < 3; i++ {
		present[i] = data[i]
	}
	for i := 0; i < 2; i++ {
		// a regular schema field is a field of the result; a required field
		// constraint (x!) must be satisfiable, so it needs to be allowed too
		// ("x.b: field not allowed"); an optional one (x?) does not
		if s1.decl[i] == 1 || s2.decl[i] == 1 || s1.decl[i] == 3 || s2.decl[i] == 3 {
			present[i] = true
		}
	}
	if embed {
		present[2] = true
	}
	want := false
	for i := 0; i < 3; i++ {
		if !present[i] {
			continue
		}
		allow1 := s1.allows(i)
		if embed && i == 2 {
			allow1 = true // declared next to the embedding: embeddings widen the enclosing struct
		}
		if embed && s1.kind == 0 {
			allow1 = true
		}
		if !allow1 || !s2.allows(i) {
			want = true
		}
	}
	verifAssert(got == want, "A05.3-unification-fails-iff-a-result-field-is-not-allowed-by-a-closed-conjunct")
	if !got {
		// every data field is present with its value in the result
		for i, on := range data {
			if on {
				n, err := x.LookupPath(ParsePath(names[i])).Int64()
				verifAssert(err == nil && n == 1, "A05.3-data-fields-survive")
			}
		}
	}
}
