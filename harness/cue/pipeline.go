package cue

// C02 on the real pipeline: every source of at most N bytes goes through
// parse -> compile -> evaluate -> validate -> export (CUE syntax, JSON) and each
// stage returns a value or an ordinary error: no panic leaves the API, no index
// is out of range, no nil is dereferenced, every loop terminates within the fuel
// bound (implicit assertions of the executor on every path).

import (
	verifformat "cuelang.org/go/cue/format"
	verifruntime "cuelang.org/go/internal/core/runtime"
)

func verifHarnessPipelineTotal() {
	n := verifParam("N", 2)
	stage := verifParam("STAGE", 3)
	src := verifBytesUpTo(n)
	// division rounds to 34 digits inside apd.Context.Quo, which the decimal
	// model does not cover: sources with a '/' that is not part of "//" are
	// outside the claim
	for i, c := range src {
		if c == '/' && !(i+1 < len(src) && src[i+1] == '/') && !(i > 0 && src[i-1] == '/') {
			return
		}
	}
	ctx := (*Context)(verifruntime.New())
	v := ctx.CompileBytes(src)
	verifReach("compiled")
	err := v.Err()
	if err == nil {
		verifReach("no-error")
	}
	if stage >= 1 {
		_ = v.Validate(Concrete(true))
		verifReach("validated")
	}
	if stage >= 2 {
		node := v.Syntax(Final())
		verifAssert(node != nil, "A02.2-export-returns-syntax")
		b, ferr := verifformat.Node(node)
		verifAssert(ferr != nil || len(b) >= 0, "A02.2-format-returns")
		verifReach("exported-cue")
	}
	// JSON export of strings and bytes goes through encoding/json's reflection,
	// which the executor models only for concrete content: sources with a
	// non-empty quoted literal end here (outside the claim).
	for i, c := range src {
		if (c == '"' || c == '\'') && i+1 < len(src) && src[i+1] != c {
			return
		}
	}
	if stage >= 3 {
		b, jerr := v.MarshalJSON()
		verifAssert((jerr == nil) == (b != nil), "A02.2-json-bytes-or-error")
		if jerr == nil {
			verifReach("exported-json")
		}
	}
}
