package json

// C10 / A10.1, A10.2 (and A07.3): CUE decodes JSON by checking json.Valid and
// handing the same bytes to the CUE parser, so the deciding question is whether
// CUE's scanner and literal package read JSON string and number tokens as
// encoding/json does.

import (
	verifgojson "encoding/json"
	_ "unsafe"
	verifutf8 "unicode/utf8"

	verifliteral "cuelang.org/go/cue/literal"
	verifscanner "cuelang.org/go/cue/scanner"
	veriftoken "cuelang.org/go/cue/token"
	verifapd "github.com/cockroachdb/apd/v3"
)

//verif:summarize cuelang.org/go/cue/literal.unhex
//verif:summarize encoding/json.getu4

//verif:stub (*cuelang.org/go/cue/literal.NumInfo).decimal verifStubNumDecimal
func verifStubNumDecimal(p *verifliteral.NumInfo, v *verifapd.Decimal) error { return nil }

// encoding/json's own string unquoter (the JSON side of the differential).
// Natively bound by linkname (go test -ldflags=-checklinkname=0); in the
// symbolic run the engine resolves the alias to the same SSA function.
//
//go:linkname verifGoJSONUnquote encoding/json.unquote
//verif:stub verifGoJSONUnquote encoding/json.unquote
func verifGoJSONUnquote(s []byte) (string, bool)

func verifCheckJSONString(lit string) {
	b := []byte(lit)
	if !verifgojson.Valid(b) {
		return
	}
	want, ok := verifGoJSONUnquote(b)
	verifReach("valid-json-string")
	verifAssert(ok, "A10.1-go-unquote-ok")
	// region predicate for the recorded finding: an escape \uD800-\uDFFF that is
	// not part of a high+low pair (encoding/json substitutes U+FFFD)
	verifPublish("lone-surrogate-escape", verifHasLoneSurrogate(lit))
	bom := false
	for i := 0; i+2 < len(lit); i++ {
		bom = verifOr(bom, verifAnd(lit[i] == 0xEF, verifAnd(lit[i+1] == 0xBB, lit[i+2] == 0xBF)))
	}
	verifPublish("contains-raw-U+FEFF", bom)
	got, err := verifliteral.Unquote(lit)
	verifAssert(err == nil, "A10.1-cue-accepts-valid-json-string")
	verifAssert(got == want, "A10.1-cue-reads-json-string-value")
	// the scanner sees one STRING token
	verifAssert(verifScanOne(lit, veriftoken.STRING), "A10.1-scanner-one-string-token")
	// A07.3 / PatchExpr: re-quoting preserves the value
	q := verifliteral.String.WithOptionalTabIndent(1).WithOptionalHashes().Quote(got)
	back, err2 := verifliteral.Unquote(q)
	verifAssert(err2 == nil && back == got, "A07.3-requote-preserves-value")
}

func verifIsHex(c byte) bool {
	return verifOr(verifOr(c >= '0' && c <= '9', c >= 'a' && c <= 'f'), c >= 'A' && c <= 'F')
}

// verifHasLoneSurrogate reports whether lit contains a "\uXXXX" escape (the
// backslash itself unescaped) denoting a surrogate code unit that is not half
// of a well-formed high+low pair. Built without branching, so it is one
// boolean term over the literal's bytes.
func verifHasLoneSurrogate(lit string) bool {
	n := len(lit)
	start := make([]bool, n) // start[i]: lit[i] is a backslash that begins an escape
	escaped := false
	for i := 0; i < n; i++ {
		start[i] = verifAnd(verifNot(escaped), lit[i] == '\\')
		escaped = start[i]
	}
	kind := func(i int) (high, low bool) {
		if i < 0 || i+5 >= n {
			return false, false
		}
		d, e := lit[i+2], lit[i+3]
		isD := verifOr(d == 'd', d == 'D')
		hi := verifOr(e == '8', verifOr(e == '9', verifOr(e == 'a', verifOr(e == 'A', verifOr(e == 'b', e == 'B')))))
		lo := verifOr(e == 'c', verifOr(e == 'C', verifOr(e == 'd', verifOr(e == 'D', verifOr(e == 'e', verifOr(e == 'E', verifOr(e == 'f', e == 'F')))))))
		esc := verifAnd(start[i], verifAnd(lit[i+1] == 'u', isD))
		return verifAnd(esc, hi), verifAnd(esc, lo)
	}
	lone := false
	for i := 0; i+5 < n; i++ {
		h, l := kind(i)
		_, nextLow := kind(i + 6)
		prevHigh, _ := kind(i - 6)
		lone = verifOr(lone, verifOr(verifAnd(h, verifNot(nextLow)), verifAnd(l, verifNot(prevHigh))))
	}
	return lone
}

func verifScanOne(src string, k veriftoken.Token) bool {
	b := []byte(src)
	f := veriftoken.NewFile("x.json", -1, len(b))
	var s verifscanner.Scanner
	errs := 0
	s.Init(f, b, func(pos veriftoken.Pos, msg string, args []interface{}) { errs++ }, 0)
	_, tok, lit := s.Scan()
	if tok != k || lit != src {
		return false
	}
	_, tok2, _ := s.Scan()
	_, tok3, _ := s.Scan()
	return tok2 == veriftoken.COMMA && tok3 == veriftoken.EOF && errs == 0
}

// every JSON string literal with <= N content bytes
func verifHarnessJSONString() {
	n := verifParam("N", 3)
	c := verifStringUpTo(n)
	verifAssume(verifutf8.ValidString(c)) // RFC 8259: JSON text is UTF-8
	verifCheckJSONString(`"` + c + `"`)
}

// escapes: "\uXXXX" with four arbitrary bytes for X
func verifHarnessJSONUnicodeEscapes() {
	verifCheckJSONString(`"\u` + verifString(4) + `"`)
}

// surrogate pairs and their neighbourhood: "\udXXX\udYYY" with six arbitrary
// bytes (D000-DFFF covers high surrogates, low surrogates and the ordinary
// code points D000-D7FF on both sides)
func verifHarnessJSONSurrogatePairs() {
	verifCheckJSONString(`"\ud` + verifString(3) + `\ud` + verifString(3) + `"`)
}

// every JSON number spelling of <= N bytes (a number token: no surrounding
// white space). The CUE parser reads a leading '-' as unary minus, so the
// literal package and the scanner see the remainder.
func verifHarnessJSONNumber() {
	n := verifParam("N", 4)
	s := verifStringUpTo(n)
	verifAssume(len(s) > 0 && (s[0] == '-' || (s[0] >= '0' && s[0] <= '9')))
	for i := 0; i < len(s); i++ {
		c := s[i]
		verifAssume(c != ' ' && c != '\t' && c != '\n' && c != '\r')
	}
	if !verifgojson.Valid([]byte(s)) {
		return
	}
	verifReach("valid-json-number")
	body := s
	if s[0] == '-' {
		body = s[1:]
	}
	var info verifliteral.NumInfo
	err := verifliteral.ParseNum(body, &info)
	verifAssert(err == nil, "A10.2-cue-accepts-json-number")
	isInt := true
	want := make([]byte, 0, len(body))
	for i := 0; i < len(body); i++ {
		c := body[i]
		if c == '.' || c == 'e' || c == 'E' {
			isInt = false
		}
		if c == 'E' {
			c = 'e'
		}
		want = append(want, c)
	}
	verifAssert(info.IsInt() == isInt, "A10.2-int-iff-no-fraction-or-exponent")
	verifAssert(info.String() == string(want), "A10.2-digits-preserved")
	verifAssert(info.Multiplier() == 0, "A10.2-no-multiplier")
	tok := veriftoken.FLOAT
	if isInt {
		tok = veriftoken.INT
	}
	verifAssert(verifScanOne(body, tok), "A10.2-scanner-one-number-token")
}

// invalid JSON number spellings that CUE would read as numbers are stopped by
// the json.Valid gate: the gate itself is exercised here, on the spellings CUE
// accepts but JSON does not.
func verifHarnessJSONNumberGate() {
	n := verifParam("N", 4)
	s := verifStringUpTo(n)
	var info verifliteral.NumInfo
	if verifliteral.ParseNum(s, &info) != nil {
		return
	}
	verifReach("cue-number")
	hasCUEOnly := false
	for i := 0; i < len(s); i++ {
		c := s[i]
		if c == '_' || c == 'x' || c == 'X' || c == 'b' || c == 'o' || c == 'K' || c == 'M' || c == 'G' || c == 'T' || c == 'P' || c == '+' && i == 0 {
			hasCUEOnly = true
		}
	}
	if hasCUEOnly || s[0] == '.' {
		verifAssert(!verifgojson.Valid([]byte(s)), "A10.2-json-gate-rejects-cue-only-spellings")
	}
}
