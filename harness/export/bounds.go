package export

// C07 / A07.1: the compact form the exporter prints for a conjunction of int
// types and numeric bounds (boundSimplifier.add / expr: "int"/"uint" prefix
// plus the tightest lower and upper bound) denotes exactly the intersection of
// the conjuncts it reported as used - the unused ones are printed separately
// by the caller - for an arbitrary probe number.

import (
	verifast "cuelang.org/go/cue/ast"
	veriftoken "cuelang.org/go/cue/token"
	verifadt "cuelang.org/go/internal/core/adt"
)

//verif:stub (*cuelang.org/go/internal/core/export.exporter).expr verifStubExpr

var verifBounds []*verifadt.BoundValue

// the printed form of a bound leaf is opaque here: a literal naming the bound
func verifStubExpr(e *exporter, env *verifadt.Environment, v verifadt.Elem) verifast.Expr {
	for i, b := range verifBounds {
		if v == verifadt.Elem(b) {
			return &verifast.BasicLit{Kind: veriftoken.INT, Value: string([]byte{'B', byte('0' + i)})}
		}
	}
	verifUnsupported("exporter.expr on something that is not one of the harness's bounds")
	return nil
}

type verifProbe struct {
	scaled verifMI
	isInt  bool
}

func verifNumVal(n *verifadt.Num, scale int) verifMI { return verifDecVal(&n.X, scale) }

func verifSatBound(b *verifadt.BoundValue, p verifProbe, scale int) bool {
	v := verifNumVal(b.Value.(*verifadt.Num), scale)
	switch b.Op {
	case verifadt.LessThanOp:
		return verifMILt(p.scaled, v)
	case verifadt.LessEqualOp:
		return verifMILe(p.scaled, v)
	case verifadt.GreaterThanOp:
		return verifMILt(v, p.scaled)
	case verifadt.GreaterEqualOp:
		return verifMILe(v, p.scaled)
	case verifadt.NotEqualOp:
		return verifNot(verifMIEq(v, p.scaled))
	}
	verifUnsupported("unexpected bound op")
	return false
}

// denotation of the AST returned by boundSimplifier.expr
func verifDenote(e verifast.Expr, p verifProbe, scale int) bool {
	switch x := e.(type) {
	case *verifast.Ident:
		switch x.Name {
		case "int":
			return p.isInt
		case "uint":
			return verifAnd(p.isInt, verifMILe(verifMIConst(0), p.scaled))
		}
	case *verifast.BasicLit:
		if len(x.Value) == 2 && x.Value[0] == 'B' {
			return verifSatBound(verifBounds[int(x.Value[1]-'0')], p, scale)
		}
	case *verifast.BinaryExpr:
		if x.Op == veriftoken.AND {
			return verifAnd(verifDenote(x.X, p, scale), verifDenote(x.Y, p, scale))
		}
	}
	verifAssert(false, "A07.1-output-shape")
	return false
}

func verifHarnessBoundSimplifier() {
	digits := verifParam("DIGITS", 2)
	maxExp := verifParam("EXP", 1)
	k := verifParam("K", 3)
	verifBounds = nil
	ops := []verifadt.Op{verifadt.LessThanOp, verifadt.LessEqualOp, verifadt.GreaterThanOp, verifadt.GreaterEqualOp, verifadt.NotEqualOp}
	s := boundSimplifier{e: &exporter{}}
	// probe
	pv := verifMIFresh("p")
	lim := verifMIPow10(digits + 1 + maxExp)
	verifAssume(verifMILt(verifMINeg(lim), pv))
	verifAssume(verifMILt(pv, lim))
	p := verifProbe{scaled: pv, isInt: verifBool("p-is-int")}
	verifAssume(verifImplies(p.isInt, verifMIEq(verifMIModE(pv, verifMIPow10(maxExp)), verifMIConst(0))))
	usedSat := true
	// INT=1: the int type is always among the conjuncts (first or last), so that
	// "int & lower & upper" is inside the bound already with K=2
	withInt := verifParam("INT", 0) == 1
	intFirst := withInt && verifChoice(2) == 0
	if intFirst {
		if s.add(&verifadt.BasicType{K: verifadt.IntKind}) {
			usedSat = verifAnd(usedSat, p.isInt)
		}
	}
	for i := 0; i < k; i++ {
		var c verifadt.Value
		var sat bool
		if verifChoice(3) == 0 {
			c = &verifadt.BasicType{K: verifadt.IntKind}
			sat = p.isInt
		} else {
			n := &verifadt.Num{}
			if verifChoice(2) == 0 {
				n.K = verifadt.IntKind
				n.X = verifDec("b", digits, 0)
			} else {
				n.K = verifadt.FloatKind
				n.X = verifDec("b", digits, maxExp)
			}
			b := &verifadt.BoundValue{Op: ops[verifChoice(len(ops))], Value: n}
			verifBounds = append(verifBounds, b)
			c = b
			sat = verifSatBound(b, p, maxExp)
		}
		if s.add(c) {
			usedSat = verifAnd(usedSat, sat)
		}
	}
	if withInt && !intFirst {
		if s.add(&verifadt.BasicType{K: verifadt.IntKind}) {
			usedSat = verifAnd(usedSat, p.isInt)
		}
	}
	e := s.expr(nil)
	verifReach("simplified")
	if e == nil {
		return // the caller prints every conjunct itself
	}
	verifReach("compact-form")
	verifAssert(verifDenote(e, p, maxExp) == usedSat, "A07.1-compact-form-denotes-the-used-conjuncts")
}
