package modzip

// C15 / A15.1-A15.4 on the real CheckZip loop (zip container parsing stubbed:
// zip.NewReader returns the harness's entries with symbolic names, sizes and
// directory flags). Names are ASCII in these harnesses (case folding beyond
// ASCII is outside the claim); arbitrary bytes are covered at the name checks
// themselves by the mod/module harness.

import (
	verifzip "archive/zip"
	verifio "io"
	verifpath "path"
	verifstrings "strings"

	verifmodule "cuelang.org/go/mod/module"
)

//verif:stub archive/zip.NewReader verifStubNewReader
//verif:summarize strings.EqualFold
//verif:summarize cuelang.org/go/mod/module.fileNameOK

var verifEntries []*verifzip.File

func verifStubNewReader(r verifio.ReaderAt, size int64) (*verifzip.Reader, error) {
	return &verifzip.Reader{File: verifEntries}, nil
}

func verifEntry(name string, size uint64) *verifzip.File {
	return &verifzip.File{FileHeader: verifzip.FileHeader{Name: name, UncompressedSize64: size}}
}

func verifASCIIName(n int) string {
	s := verifStringUpTo(n)
	for i := 0; i < len(s); i++ {
		verifAssume(s[i] < 0x80)
	}
	return s
}

// names over the alphabet {a, A, '/', '.'}: enough to spell every kind of
// collision (equal, case-equal, file/directory prefix, dot elements). The
// shape (letter, slash, dot per position) is an explored choice; the case of
// every letter stays symbolic.
func verifSmallAlphabetName(n int) string {
	k := verifChoice(n + 1)
	b := make([]byte, k)
	for i := range b {
		switch verifChoice(3) {
		case 0:
			b[i] = byte(verifIte(verifBool("upper"), 'A', 'a'))
		case 1:
			b[i] = '/'
		default:
			b[i] = '.'
		}
	}
	return string(b)
}

func verifValidHas(cf CheckedFiles, name string) bool {
	for _, v := range cf.Valid {
		if v == name {
			return true
		}
	}
	return false
}

var verifMV = verifmodule.MustNewVersion("example.com/m@v0", "v0.0.1")

func verifLowerASCII(s string) string {
	b := make([]byte, len(s))
	for i := range b {
		c := s[i]
		b[i] = byte(verifIte(verifAnd(c >= 'A', c <= 'Z'), int(c)+32, int(c)))
	}
	return string(b)
}

var verifNameTemplates = []string{"", "cue.mod/", "x/cue.mod/", "CUE.MOD/", "cue.mo", "cue.mod/module.cu", "cue.mod/local-module.cu", "x/", "cue.mod/MODULE.CU",
	"cue.mod/x/cue.mod/", "cue.mod/cue.mod/", "cue.mod/x/cue.mo", "cue.mod/x/Cue.Mod/"}

// one entry "template + arbitrary ASCII bytes" next to the module file
func verifHarnessCheckZipName() {
	n := verifParam("N", 2)
	t := verifParam("T", -1)
	if t < 0 {
		t = verifChoice(len(verifNameTemplates))
	}
	name := verifNameTemplates[t] + verifASCIIName(n)
	verifEntries = []*verifzip.File{verifEntry("cue.mod/module.cue", 10), verifEntry(name, 1)}
	_, modf, cf, _ := CheckZip(verifMV, nil, 100)
	verifReach("checked")
	verifAssert(modf != nil && cf.NoModError == nil, "A15.3-module-file-found")
	if !verifValidHas(cf, name) || name == "cue.mod/module.cue" {
		return
	}
	verifReach("valid-entry")
	// only names passing both name checks become valid
	verifAssert(verifmodule.CheckFilePath(name) == nil && verifpath.Clean(name) == name, "A15.1-valid-passed-name-checks")
	verifAssert(!verifstrings.HasSuffix(name, "/"), "A15.1-valid-is-a-file")
	// A15.3 placement
	verifAssert(name != "cue.mod/local-module.cue", "A15.3-no-local-module-file")
	lower := verifLowerASCII(name)
	start := 0
	idx := 0
	for i := 0; i <= len(lower); i++ {
		if i == len(lower) || lower[i] == '/' {
			if lower[start:i] == "cue.mod" {
				verifAssert(idx == 0 && i < len(lower), "A15.3-cue-mod-only-at-root-as-directory")
				verifAssert(verifstrings.HasPrefix(name, "cue.mod/"), "A15.3-cue-mod-exact-case")
			}
			start = i + 1
			idx++
		}
	}
	verifAssert(lower != "cue.mod/module.cue", "A15.3-module-file-case-or-duplicate")
}

// two arbitrary entries: no two valid names collide
func verifHarnessCheckZipCollisions() {
	n := verifParam("N", 3)
	var n1, n2 string
	if verifParam("MODE", 0) == 1 {
		// the second name lies under a case variant of the first: "<n1'>/a"
		k := 1 + verifChoice(n)
		b1, b2 := make([]byte, k), make([]byte, k)
		for i := range b1 {
			b1[i] = byte(verifIte(verifBool("upper1"), 'A', 'a'))
			b2[i] = byte(verifIte(verifBool("upper2"), 'A', 'a'))
		}
		n1, n2 = string(b1), string(b2)+"/a"
		if verifChoice(2) == 1 {
			n1, n2 = n2, n1
		}
	} else if verifParam("MODE", 0) == 2 {
		// two files in directories: "<x>/<y>" with letters a/b of symbolic case
		letter := func() byte {
			if verifChoice(2) == 0 {
				return byte(verifIte(verifBool("upper"), 'A', 'a'))
			}
			return byte(verifIte(verifBool("upper"), 'B', 'b'))
		}
		n1 = string([]byte{letter(), '/', letter()})
		n2 = string([]byte{letter(), '/', letter()})
	} else {
		n1, n2 = verifSmallAlphabetName(n), verifSmallAlphabetName(n)
	}
	d1, d2 := "", ""
	if verifChoice(2) == 1 {
		d1 = "/"
	}
	if verifChoice(2) == 1 {
		d2 = "/"
	}
	verifEntries = []*verifzip.File{verifEntry("cue.mod/module.cue", 10), verifEntry(n1+d1, 1), verifEntry(n2+d2, 1)}
	_, _, cf, _ := CheckZip(verifMV, nil, 100)
	verifReach("checked")
	if d1 != "" || d2 != "" {
		// directory entries are never listed as valid files
		verifAssert(d1 == "" || !verifValidHas(cf, n1+d1), "A15.2-directory-entry-not-valid-file")
		verifAssert(d2 == "" || !verifValidHas(cf, n2+d2), "A15.2-directory-entry-not-valid-file")
	}
	if verifParam("MODE", 0) == 1 && d1 == "" && d2 == "" {
		// a file and a file below a case variant of it can never both be accepted
		verifAssert(len(cf.Valid) < 3, "A15.2-file-and-path-below-it-rejected")
		return
	}
	if !(d1 == "" && d2 == "" && len(cf.Valid) == 3) {
		return
	}
	verifReach("both-valid")
	verifAssert(n1 != n2, "A15.2-no-duplicate")
	verifAssert(!verifstrings.EqualFold(n1, n2), "A15.2-no-case-collision")
	verifAssert(!verifstrings.HasPrefix(n2, n1+"/") && !verifstrings.HasPrefix(n1, n2+"/"), "A15.2-no-file-directory-clash")
	// no two directory prefixes that differ only by case (they would be one
	// directory on a case-insensitive file system)
	for i := 0; i < len(n1); i++ {
		if n1[i] != '/' {
			continue
		}
		for j := 0; j < len(n2); j++ {
			if n2[j] == '/' && i == j {
				verifAssert(verifImplies(verifLowerASCII(n1[:i]) == verifLowerASCII(n2[:j]), n1[:i] == n2[:j]), "A15.2-no-directory-case-collision")
			}
		}
	}
	l1, l2 := verifLowerASCII(n1), verifLowerASCII(n2)
	verifAssert(!verifstrings.HasPrefix(l2, l1+"/") && !verifstrings.HasPrefix(l1, l2+"/"), "A15.2-no-file-directory-clash-case-insensitive")
}

// sizes: bit-vector arithmetic on the declared sizes
func verifHarnessCheckZipSizes() {
	s0, s1, s2 := verifU64("modsize"), verifU64("licsize"), verifU64("filesize")
	verifEntries = []*verifzip.File{verifEntry("cue.mod/module.cue", s0), verifEntry("LICENSE", s1), verifEntry("a.cue", s2)}
	_, _, cf, _ := CheckZip(verifMV, nil, 100)
	verifReach("checked")
	if cf.Err() != nil {
		return
	}
	verifReach("accepted")
	verifAssert(len(cf.Valid) == 3, "A15.4-all-listed")
	verifAssert(s0 <= MaxCUEMod, "A15.4-module-file-size-limit")
	verifAssert(s1 <= MaxLICENSE, "A15.4-licence-size-limit")
	verifAssert(s0 <= MaxZipFile && s1 <= MaxZipFile && s2 <= MaxZipFile, "A15.4-each-size-within-limit")
	// the true (unbounded) sum is within the limit: no wrap-around hid an overflow
	verifAssert(s0 <= MaxZipFile && s1 <= MaxZipFile-s0 && s2 <= MaxZipFile-s0-s1, "A15.4-total-within-limit-without-wraparound")
	// Unzip reads at most declared+1 bytes: that addition cannot overflow
	verifAssert(int64(s2)+1 > 0 && int64(s0)+1 > 0 && int64(s1)+1 > 0, "A15.4-limited-reader-bound-no-overflow")
}
