package compile

// C07 / A07.4 (and C03 / A03.4): the predeclared sized integer types expand to
// exactly the spec's intervals, adt.MatchBuiltinRange names a conjunction only
// if it denotes exactly the interval of that name, and each expansion is
// matched back to its own name (so printing `int8` for a conjunction and
// re-reading it gives the same value).

import (
	verifadt "cuelang.org/go/internal/core/adt"
)

type verifRange struct {
	name   string
	bits   int
	signed bool
}

var verifIntRanges = []verifRange{
	{"int8", 8, true}, {"int16", 16, true}, {"int32", 32, true}, {"int64", 64, true}, {"int128", 128, true},
	{"uint8", 8, false}, {"uint16", 16, false}, {"uint32", 32, false}, {"uint64", 64, false}, {"uint128", 128, false},
}

func verifPow2(n int) verifMI {
	r := verifMIConst(1)
	for i := 0; i < n; i++ {
		r = verifMIMul(r, verifMIConst(2))
	}
	return r
}

func verifSpecBounds(r verifRange) (lo, hi verifMI) {
	if r.signed {
		return verifMINeg(verifPow2(r.bits - 1)), verifMISub(verifPow2(r.bits-1), verifMIConst(1))
	}
	return verifMIConst(0), verifMISub(verifPow2(r.bits), verifMIConst(1))
}

func verifIntVal(n *verifadt.Num) verifMI { return verifDecVal(&n.X, 0) }

func verifParts(c *verifadt.Conjunction) (hasInt bool, lo, hi *verifadt.Num) {
	for _, v := range c.Values {
		switch x := v.(type) {
		case *verifadt.BasicType:
			hasInt = x.K == verifadt.IntKind
		case *verifadt.BoundValue:
			n := x.Value.(*verifadt.Num)
			if x.Op == verifadt.GreaterEqualOp {
				lo = n
			} else if x.Op == verifadt.LessEqualOp {
				hi = n
			}
		}
	}
	return
}

func verifHarnessPredeclaredRanges() {
	r := verifIntRanges[verifChoice(len(verifIntRanges))]
	c, ok := LookupRange(r.name).(*verifadt.Conjunction)
	verifReach("looked-up")
	verifAssert(ok, "A07.4-expansion-is-a-conjunction")
	hasInt, lo, hi := verifParts(c)
	verifAssert(hasInt && lo != nil && hi != nil && len(c.Values) == 3, "A07.4-expansion-shape")
	wantLo, wantHi := verifSpecBounds(r)
	verifAssert(lo.X.Exponent == 0 && hi.X.Exponent == 0 && lo.K == verifadt.IntKind && hi.K == verifadt.IntKind, "A03.4-bounds-are-ints")
	verifAssert(verifMIEq(verifIntVal(lo), wantLo) && verifMIEq(verifIntVal(hi), wantHi), "A03.4-expansion-is-the-spec-interval")
	verifAssert(verifadt.MatchBuiltinRange(c) == r.name, "A07.4-expansion-matched-back-to-its-name")

	// perturbed conjunction: bounds moved by arbitrary small amounts, the int type optionally dropped
	dl, dh := verifMIFresh("dl"), verifMIFresh("dh")
	for _, d := range []verifMI{dl, dh} {
		verifAssume(verifMILe(verifMIConst(-2), d))
		verifAssume(verifMILe(d, verifMIConst(2)))
	}
	mk := func(base *verifadt.Num, d verifMI) *verifadt.Num {
		n := &verifadt.Num{K: verifadt.IntKind}
		v := verifMIAdd(verifIntVal(base), d)
		n.X.Negative = verifMILt(v, verifMIConst(0))
		verifMISet(&n.X.Coeff, verifMIAbs(v))
		return n
	}
	lo2, hi2 := mk(lo, dl), mk(hi, dh)
	vals := []verifadt.Value{
		&verifadt.BoundValue{Op: verifadt.GreaterEqualOp, Value: lo2},
		&verifadt.BoundValue{Op: verifadt.LessEqualOp, Value: hi2},
	}
	keepInt := verifChoice(2) == 1
	if keepInt {
		vals = append(vals, &verifadt.BasicType{K: verifadt.IntKind})
	}
	got := verifadt.MatchBuiltinRange(&verifadt.Conjunction{Values: vals})
	if got == "" {
		return
	}
	verifReach("named")
	for _, q := range verifIntRanges {
		if q.name == got {
			ql, qh := verifSpecBounds(q)
			verifAssert(keepInt, "A07.4-int-range-name-requires-int-type")
			verifAssert(verifMIEq(verifIntVal(lo2), ql) && verifMIEq(verifIntVal(hi2), qh), "A07.4-named-range-denotes-exactly-its-interval")
			return
		}
	}
	verifAssert(got == "float32" || got == "float64", "A07.4-known-name")
	verifAssert(!keepInt, "A07.4-float-range-name-without-int-type")
}
