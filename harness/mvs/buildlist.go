package mvs

// C14 / A14.5: the real BuildList (real par.Work.Add/runner, real Graph, real
// module.Versions.Max over real semver.Compare) under every processing order
// and every requirement relation over a small universe with symbolic version
// numbers, against the least fixpoint computed here.

import (
	verifmodule "cuelang.org/go/mod/module"
)

//verif:stub math/rand/v2.IntN verifStubIntN
//verif:setarg (*cuelang.org/go/internal/par.Work[cuelang.org/go/internal/mod/mvs.verifMV]).Do* 1 1

func verifStubIntN(n int) int { return verifChoice(n) }

type verifMV struct{ path, vers string }

type verifReqs struct {
	req map[verifMV][]verifMV
}

func (verifReqs) New(p, v string) (verifMV, error) { return verifMV{p, v}, nil }
func (verifReqs) Path(v verifMV) string            { return v.path }
func (verifReqs) Version(v verifMV) string         { return v.vers }
func (r verifReqs) Required(m verifMV) ([]verifMV, error) {
	return r.req[m], nil
}
func (verifReqs) Max(v1, v2 string) string { return verifmodule.Versions{}.Max(v1, v2) }

func verifDigit(tag string) byte {
	d := verifU8(tag)
	verifAssume(d >= '0' && d <= '9')
	return d
}

func verifVer(d byte) string { return "v1." + string([]byte{d}) + ".0" }

func verifHarnessBuildList() {
	// universe
	db := [2]byte{verifDigit("b0"), verifDigit("b1")}
	dc := [2]byte{verifDigit("c0"), verifDigit("c1")}
	verifAssume(db[0] != db[1])
	verifAssume(dc[0] != dc[1])
	target := verifMV{"a", ""}
	nb := [2]verifMV{{"b", verifVer(db[0])}, {"b", verifVer(db[1])}}
	nc := [2]verifMV{{"c", verifVer(dc[0])}, {"c", verifVer(dc[1])}}

	// requirement relation: every node requires at most one version of each other path
	pick := func(cands [2]verifMV) []verifMV {
		switch verifChoice(3) {
		case 1:
			return []verifMV{cands[0]}
		case 2:
			return []verifMV{cands[1]}
		}
		return nil
	}
	rel := map[verifMV][]verifMV{}
	ta := append(pick(nb), pick(nc)...)
	if len(ta) == 2 && verifChoice(2) == 1 {
		ta[0], ta[1] = ta[1], ta[0] // order in which the requirements are written
	}
	rel[target] = ta
	// edges of b nodes and c nodes, kept also in arrays for the reference below
	var eb, ec [2][]verifMV
	for i := 0; i < 2; i++ {
		eb[i] = pick(nc)
		ec[i] = pick(nb)
		rel[nb[i]] = eb[i]
		rel[nc[i]] = ec[i]
	}

	list, err := BuildList([]verifMV{target}, verifReqs{rel})
	verifReach("built")
	verifAssert(err == nil, "A14.5-noerror")

	// reference: closure over all edges from the target, maximum digit per path
	var rb, rc [2]bool // reachable b_i / c_i
	mark := func(ms []verifMV) (changed bool) {
		for _, m := range ms {
			for i := 0; i < 2; i++ {
				if m == nb[i] && !rb[i] {
					rb[i], changed = true, true
				}
				if m == nc[i] && !rc[i] {
					rc[i], changed = true, true
				}
			}
		}
		return
	}
	mark(ta)
	for again := true; again; {
		again = false
		for i := 0; i < 2; i++ {
			if rb[i] && mark(eb[i]) {
				again = true
			}
			if rc[i] && mark(ec[i]) {
				again = true
			}
		}
	}
	want := func(reach [2]bool, d [2]byte, n [2]verifMV) (verifMV, bool) {
		switch {
		case reach[0] && reach[1]:
			if d[0] > d[1] {
				return n[0], true
			}
			return n[1], true
		case reach[0]:
			return n[0], true
		case reach[1]:
			return n[1], true
		}
		return verifMV{}, false
	}
	wb, hasB := want(rb, db, nb)
	wc, hasC := want(rc, dc, nc)

	verifAssert(len(list) >= 1 && list[0] == target, "A14.5-target-first")
	n := 1
	if hasB {
		n++
	}
	if hasC {
		n++
	}
	verifAssert(len(list) == n, "A14.5-nothing-unreachable-no-duplicates")
	gotB, gotC := false, false
	for _, m := range list[1:] {
		if m.path == "b" {
			gotB = true
			verifAssert(hasB && m == wb, "A14.5-b-is-max-of-reachable")
		}
		if m.path == "c" {
			gotC = true
			verifAssert(hasC && m == wc, "A14.5-c-is-max-of-reachable")
		}
	}
	verifAssert(gotB == hasB && gotC == hasC, "A14.5-sufficient")
}

// A deeper universe: target a; module b with two versions (symbolic minor
// digits); modules c and d with one version each. Every edge of
// a->{b0,b1,c}, b0->{c,d}, b1->{c,d}, c->{d} is optional. Requirements reachable
// only below a superseded version must still be followed.
func verifHarnessBuildListChain() {
	db := [2]byte{verifDigit("b0"), verifDigit("b1")}
	verifAssume(db[0] != db[1])
	target := verifMV{"a", ""}
	nb := [2]verifMV{{"b", verifVer(db[0])}, {"b", verifVer(db[1])}}
	c := verifMV{"c", "v1.0.0"}
	d := verifMV{"d", "v1.0.0"}
	opt := func(ms ...verifMV) []verifMV {
		var out []verifMV
		for _, m := range ms {
			if verifChoice(2) == 1 {
				out = append(out, m)
			}
		}
		return out
	}
	rel := map[verifMV][]verifMV{}
	ea := opt(nb[0], nb[1], c)
	eb := [2][]verifMV{opt(c, d), opt(c, d)}
	ec := opt(d)
	rel[target], rel[nb[0]], rel[nb[1]], rel[c] = ea, eb[0], eb[1], ec

	list, err := BuildList([]verifMV{target}, verifReqs{rel})
	verifReach("built")
	verifAssert(err == nil, "A14.5-chain-noerror")

	// reference closure over all edges
	has := func(ms []verifMV, m verifMV) bool {
		for _, x := range ms {
			if x == m {
				return true
			}
		}
		return false
	}
	rb := [2]bool{has(ea, nb[0]), has(ea, nb[1])}
	rc := has(ea, c) || (rb[0] && has(eb[0], c)) || (rb[1] && has(eb[1], c))
	rd := (rb[0] && has(eb[0], d)) || (rb[1] && has(eb[1], d)) || (rc && has(ec, d))
	n := 1
	var wb verifMV
	if rb[0] || rb[1] {
		n++
		switch {
		case rb[0] && rb[1]:
			wb = nb[1]
			if db[0] > db[1] {
				wb = nb[0]
			}
		case rb[0]:
			wb = nb[0]
		default:
			wb = nb[1]
		}
	}
	if rc {
		n++
	}
	if rd {
		n++
	}
	verifAssert(len(list) == n, "A14.5-chain-exactly-the-reachable-modules")
	gotB, gotC, gotD := false, false, false
	for _, m := range list[1:] {
		switch m.path {
		case "b":
			gotB = true
			verifAssert(m == wb, "A14.5-chain-b-is-max-of-reachable")
		case "c":
			gotC = m == c
		case "d":
			gotD = m == d
		}
	}
	verifAssert(gotB == (rb[0] || rb[1]) && gotC == rc && gotD == rd, "A14.5-chain-sufficient")
}
