#!/bin/sh
# runs every claimed property at the given tier, sequentially; prints one summary line each
tier=${1:-quick}
cd "$(dirname "$0")"
./setup.sh >/dev/null 2>&1
for p in $(python3 -c "import specs; print(' '.join(sorted(specs.PROPS)))"); do
  start=$(date +%s)
  ./check $p $tier > .work_$p.log 2>&1
  rc=$?
  echo "$p $tier exit=$rc $(( $(date +%s) - start ))s: $(tail -1 .work_$p.log)"
  grep -h "INCONCLUSIVE\|VIOLATION" .work_$p.log | head -5
  rm -f .work_$p.log
done
