"""Per-property check specifications for ./check (see DESIGN.md section 4)."""

COMMON_ASSUMPTIONS = [
    "go/ssa (x/tools v0.48.0) faithfully represents the Go source of /repo's working tree; the SSA is rebuilt on every run",
    "the executor's instruction semantics (forked from x/tools go/ssa/interp, extended with bit-vector terms) match the Go spec for the constructs reached; counterexamples are replayed natively before being reported",
    "z3 4.8.12 answers are correct; 'unknown', timeouts and '(error' lines are reported as inconclusive, never as success",
    "package-level state is initialised lazily per package and not reset between paths; goroutines are not modelled except by the cooperative model of engine/chan.go",
    "everything outside the stated bounds (longer inputs, wider values, more operations) is outside the claim",
]

PROPS = {}

PROPS["C14"] = {
    "level": "model_checking",
    "technique": "bounded symbolic execution of the real semver / module.Versions.Max / mvs.BuildList / par.Work code from go/ssa; z3 decides every branch and assertion; differential against an independent SemVer 2.0 reference and a least-fixpoint reference",
    "bounds": {
        "quick": "semver: all pairs of byte strings of length <= 5 (total preorder), pairs 'template + <=2 arbitrary bytes' over 7 templates (agreement with SemVer 2.0 reference, Canonical), triples with <=1 arbitrary byte after each template (transitivity); Max: all pairs of strings <= 6 bytes; BuildList: target + 2 paths x 2 versions with symbolic minor digits, every requirement relation with <=1 requirement per other path per node, every processing order of the real work queue",
        "thorough": "as quick with pairs <= 7 bytes (preorder), template + <=3 bytes (reference agreement), triples template + <=2 bytes, Max pairs <= 7 bytes",
    },
    "outside": ["data races between real runners (Work.Do runs one runner whose pick is symbolic; mutex-protected sections are atomic in both models)", "Upgrade/Downgrade/Req", "modrequirements pruning", "version strings longer than the bounds", "requirement graphs larger than the stated universe"],
    "assumptions": ["math/rand/v2.IntN replaced by an explored choice; par.Work.Do called with n=1", "versions handed to mvs are canonical (module.NewVersion enforces this)"],
    "runs": [
        {
            "pkg": "./internal/mod/semver",
            "harness": ["semver/order.go", "semver/ref.go"],
            "entries": {
                "quick": [
                    {"name": "verifHarnessAntisym", "params": {"N": 5}},
                    {"name": "verifHarnessRefAgree", "params": {"N": 2}},
                    {"name": "verifHarnessBuildIgnored", "params": {"N": 2}},
                    {"name": "verifHarnessTrans", "params": {"N": 1}},
                ],
                "thorough": [
                    {"name": "verifHarnessAntisym", "params": {"N": 7}},
                    {"name": "verifHarnessRefAgree", "params": {"N": 3}},
                    {"name": "verifHarnessBuildIgnored", "params": {"N": 3}},
                    {"name": "verifHarnessTrans", "params": {"N": 2}},
                ],
            },
        },
        {
            "pkg": "./mod/module",
            "harness": ["module/max.go"],
            "entries": {
                "quick": [{"name": "verifHarnessMax", "params": {"N": 6}}],
                "thorough": [{"name": "verifHarnessMax", "params": {"N": 7}}],
            },
        },
        {
            "pkg": "./internal/mod/mvs",
            "harness": ["mvs/buildlist.go"],
            "entries": {"quick": ["verifHarnessBuildList"], "thorough": ["verifHarnessBuildList"]},
        },
    ],
}
