"""Per-property check specifications for ./check (see DESIGN.md section 4)."""

COMMON_ASSUMPTIONS = [
    "go/ssa (x/tools v0.48.0) faithfully represents the Go source of /repo's working tree; the SSA is rebuilt on every run",
    "the executor's instruction semantics (forked from x/tools go/ssa/interp, extended with bit-vector terms) match the Go spec for the constructs reached; counterexamples are replayed natively before being reported",
    "z3 4.8.12 answers are correct; 'unknown', timeouts and '(error' lines are reported as inconclusive, never as success",
    "package-level state is initialised lazily per package; writes made by a path outside initialisers are rolled back before the next path; goroutines are not modelled except by the cooperative model of engine/chan.go",
    "everything outside the stated bounds (longer inputs, wider values, more operations) is outside the claim",
]

PROPS = {}

NOT_APPLICABLE = {
    "C11": "YAML round trip is decided by go.yaml.in/yaml/v3's emitter/scanner/resolver (table-driven state machines, strconv.ParseFloat, time.Parse); nothing that decides the property is encodable (DESIGN section 5)",
    "C12": "process-level composition of flag parsing, CUE-evaluated file-type inference and third-party YAML/TOML encoders; the literal/label kernels it relies on are claimed under C09/C10 (DESIGN section 5)",
    "C13": "instance validity is decided by the evaluator on generated CUE (closed structs, matchN, regexps); the translator only builds AST; no encodable unit carries an oracle (DESIGN section 5)",
    "C17": "tidy is the package loader iterating over a registry with concurrent loads; modfile.Parse/Format run the evaluator over schema.cue; the version ordering it relies on is claimed under C14 (DESIGN section 5)",
    "C19": "requires exploring goroutine interleavings over the evaluator's shared heap under a memory model; the executor has no concurrent semantics beyond a cooperative model (DESIGN section 5)",
    "C20": "decided by subsumption with defaults over evaluated vertices (tools/trim on top of subsume and the evaluator): whole-evaluator reach (DESIGN section 5)",
}

PROPS["C14"] = {
    "level": "model_checking",
    "claim": "Bounded symbolic model checking of the real code: semver.Compare is a total preorder agreeing with an independent SemVer 2.0 reference and with Canonical; Versions.Max and the comparison mvs derives from it are consistent; the real mvs.BuildList (real Graph, real par.Work queue with a symbolic pick) returns exactly the least fixpoint (main module first, maximum of reachable versions per path, nothing unreachable) for every requirement relation and every processing order in the stated universe. Within the bounds the verdict covers every input, not a sample.",
    "note": "Trusted: go/ssa, the executor, z3. Stubs: rand.IntN is an explored choice, Work.Do runs one runner. Outside: real goroutine races, Upgrade/Downgrade/Req, modrequirements pruning, inputs beyond the bounds.",
    "technique": "bounded symbolic execution of the real semver / module.Versions.Max / mvs.BuildList / par.Work code from go/ssa; z3 decides every branch and assertion; differential against an independent SemVer 2.0 reference and a least-fixpoint reference",
    "bounds": {
        "quick": "semver: all pairs of byte strings of length <= 5 (total preorder), pairs 'template + <=2 arbitrary bytes' over 7 templates (agreement with SemVer 2.0 reference, Canonical), triples with <=1 arbitrary byte after each template (transitivity); Max: all pairs of strings <= 6 bytes; BuildList: target + 2 paths x 2 versions with symbolic minor digits, every requirement relation with <=1 requirement per other path per node, and a deeper universe (b with two versions, c, d; all 2^8 edge sets of a->{b0,b1,c}, b*->{c,d}, c->d), every processing order of the real work queue",
        "thorough": "as quick with pairs <= 7 bytes (preorder), template + <=3 bytes (reference agreement), triples template + <=2 bytes, Max pairs <= 7 bytes",
    },
    "outside": ["data races between real runners (Work.Do runs one runner whose pick is symbolic; mutex-protected sections are atomic in both models)", "Upgrade/Downgrade/Req", "modrequirements pruning", "version strings longer than the bounds", "requirement graphs larger than the stated universe"],
    "assumptions": ["math/rand/v2.IntN replaced by an explored choice; par.Work.Do called with n=1", "versions handed to mvs are canonical (module.NewVersion enforces this)"],
    "runs": [
        {
            "pkg": "./internal/mod/semver",
            "harness": ["semver/order.go", "semver/ref.go"],
            "entries": {
                "quick": [
                    {"name": "verifHarnessAntisym", "params": {"N": 5}},
                    {"name": "verifHarnessRefAgree", "params": {"N": 2}},
                    {"name": "verifHarnessBuildIgnored", "params": {"N": 2}},
                    {"name": "verifHarnessTrans", "params": {"N": 1}},
                ],
                "thorough": [
                    {"name": "verifHarnessAntisym", "params": {"N": 7}},
                    {"name": "verifHarnessRefAgree", "params": {"N": 3}},
                    {"name": "verifHarnessBuildIgnored", "params": {"N": 3}},
                    {"name": "verifHarnessTrans", "params": {"N": 2}},
                ],
            },
        },
        {
            "pkg": "./mod/module",
            "harness": ["module/max.go"],
            "entries": {
                "quick": [{"name": "verifHarnessMax", "params": {"N": 6}}],
                "thorough": [{"name": "verifHarnessMax", "params": {"N": 7}}],
            },
        },
        {
            "pkg": "./internal/mod/mvs",
            "harness": ["mvs/buildlist.go"],
            "entries": {"quick": ["verifHarnessBuildList", "verifHarnessBuildListChain"], "thorough": ["verifHarnessBuildList", "verifHarnessBuildListChain"]},
        },
    ],
}

PROPS["C09"] = {
    "level": "model_checking",
    "claim": "Bounded symbolic model checking of the real cue/literal, cue/scanner and cue/ast code: every quoting form unquotes to the original for every content within the length bound; the scanner terminates, never panics and reports in-range, monotone positions and literal-equals-source on every source within the bound; scanner, literal.ParseNum, ast.IsValidIdent, LabelName/NewStringLabel and Go's strconv.Unquote agree on whole inputs. Three genuine disagreements are recorded as known findings; one quoting defect was repaired (fix: commit).",
    "note": "Trusted: go/ssa, the executor, z3, the Unicode-class axioms. cue/parser itself (tree construction, node containment) is outside the claim, as are inputs longer than the bounds.",
    "technique": "bounded symbolic execution of the real cue/literal, cue/scanner and cue/ast code from go/ssa over arbitrary byte strings; round-trip, totality and differential assertions decided by z3 (single-byte branch conditions by the exact byte-domain pre-solver)",
    "bounds": {
        "quick": "quote/unquote round trip: every string/byte sequence of length <= 2 in each of 32 forms ({String,Bytes} x {single line, tab indent 0, tab indent 1, optional indent} x {-,optional hashes} x {-,ASCII only}); scanner totality/positions: every source of <= 3 bytes (comments on); scanner vs ParseNum and vs IsValidIdent: every string of <= 4 bytes; labels: every valid UTF-8 string <= 3 bytes; CUE vs Go unquote: every quoted literal with <= 3 content bytes",
        "thorough": "round trip <= 3 bytes x 32 forms; scanner <= 4 bytes in both modes; agreement <= 5 bytes; labels <= 4; unquoters <= 5",
    },
    "outside": ["cue/parser (AST construction, error recovery, comment attachment, node start/end containment)", "inputs longer than the bounds", "value of number literals (C06)", "Unicode classification beyond ASCII/Latin-1 is an uninterpreted function constrained only by category disjointness and the fixed points U+FEFF/U+FFFD/non-code-points"],
    "assumptions": ["(*literal.NumInfo).decimal stubbed to succeed in the scanner/ParseNum agreement harness (multiplier values are checked under C06)"],
    "runs": [
        {
            "pkg": "./cue/literal",
            "harness": ["literal/roundtrip.go"],
            "entries": {
                "quick": [{"name": "verifHarnessQuoteRoundTrip", "params": {"N": 2}}],
                "thorough": [{"name": "verifHarnessQuoteRoundTrip", "params": {"N": 3}}],
            },
        },
        {
            "pkg": "./cue/scanner",
            "harness": ["scanner/total.go"],
            "entries": {
                "quick": [
                    {"name": "verifHarnessScanTotal", "params": {"N": 3}},
                    {"name": "verifHarnessScanIdentAgree", "params": {"N": 4}},
                ],
                "thorough": [
                    {"name": "verifHarnessScanTotal", "params": {"N": 4}},
                    {"name": "verifHarnessScanTotal", "params": {"N": 4, "MODE": 0}},
                    {"name": "verifHarnessScanIdentAgree", "params": {"N": 5}},
                ],
            },
        },
        {
            "pkg": "./cue/scanner",
            "harness": ["scanner/total.go", "scanner/numagree.go"],
            "entries": {
                "quick": [{"name": "verifHarnessScanNumAgree", "params": {"N": 4}}],
                "thorough": [{"name": "verifHarnessScanNumAgree", "params": {"N": 5}}],
            },
        },
        {
            "pkg": "./cue/ast",
            "harness": ["ast/label.go"],
            "entries": {
                "quick": [
                    {"name": "verifHarnessLabelRoundTrip", "params": {"N": 3}},
                    {"name": "verifHarnessUnquotersAgree", "params": {"N": 3}},
                ],
                "thorough": [
                    {"name": "verifHarnessLabelRoundTrip", "params": {"N": 4}},
                    {"name": "verifHarnessUnquotersAgree", "params": {"N": 5}},
                ],
            },
        },
    ],
}

PROPS["C10"] = {
    "level": "model_checking",
    "claim": "Bounded symbolic differential checking of the token level of CUE's JSON decoding path against Go's encoding/json: every valid JSON string literal within the bound is accepted by literal.Unquote with exactly encoding/json's value, scans as one STRING token and survives PatchExpr's re-quoting; every valid JSON number spelling within the bound is accepted by literal.ParseNum with the same digits and int/float kind and scans as one number token; CUE-only number spellings are stopped by the json.Valid gate. Lone surrogate escapes are a recorded known finding.",
    "note": "Trusted: go/ssa, the executor, z3; encoding/json's checkValid/unquote are executed from source as the reference. Outside: encoding/json's reflection-based encoder and its string escaper, Decimal formatting, streaming decoder buffering, nesting, duplicate keys, object/array framing of the encoder, inputs longer than the bounds.",
    "technique": "bounded symbolic execution of literal.Unquote / ParseNum / scanner.Scan and of encoding/json's validator and unquoter from go/ssa on the same symbolic bytes; agreement assertions decided by z3",
    "bounds": {
        "quick": "string literals with <= 3 arbitrary (valid UTF-8) content bytes; \\uXXXX with 4 arbitrary bytes; \\udXXX\\udYYY with 6 arbitrary bytes (surrogate pairs and their neighbours); number spellings <= 5 bytes",
        "thorough": "string content <= 5 bytes; number spellings <= 7 bytes",
    },
    "outside": ["encoding/json reflection encoder and string escaper (stdlib, reached only through json.NewEncoder)", "Decimal.Append formatting", "nesting / duplicate keys / framing", "JSON text that is not valid UTF-8 (RFC 8259 requires UTF-8)"],
    "assumptions": ["(*literal.NumInfo).decimal stubbed to succeed (values of literals: C06)", "encoding/json.unquote reached through a linkname alias"],
    "runs": [
        {
            "pkg": "./internal/encoding/json",
            "harness": ["cuejson/tokens.go"],
            "entries": {
                "quick": [
                    {"name": "verifHarnessJSONString", "params": {"N": 3}},
                    "verifHarnessJSONUnicodeEscapes",
                    "verifHarnessJSONSurrogatePairs",
                    {"name": "verifHarnessJSONNumber", "params": {"N": 5}},
                    {"name": "verifHarnessJSONNumberGate", "params": {"N": 5}},
                ],
                "thorough": [
                    {"name": "verifHarnessJSONString", "params": {"N": 5}},
                    "verifHarnessJSONUnicodeEscapes",
                    "verifHarnessJSONSurrogatePairs",
                    {"name": "verifHarnessJSONNumber", "params": {"N": 7}},
                    {"name": "verifHarnessJSONNumberGate", "params": {"N": 6}},
                ],
            },
        },
    ],
}

APD_ASSUMPTIONS = [
    "github.com/cockroachdb/apd/v3 is replaced by the decimal contract model of harness/lib/apdmodel.go.tmpl (value = (-1)^Negative * Coeff * 10^Exponent, Coeff a mathematical integer; half-up rounding to the precision read from /repo's BaseContext); the model is validated on every run against the real apd over a 5590-line operand grid, natively and through the executor",
    "operands are finite decimals with concrete sign and exponent per path (both enumerated) and an arbitrary coefficient within the stated digit bound",
]

PROPS["C03"] = {
    "level": "model_checking",
    "claim": "Bounded symbolic model checking of the real adt.SimplifyBounds, BoundValue.validate/validateStr/validateInt/Kind, BinOp comparison arms and cmpTonode against a set-theoretic oracle written in the harness: whatever SimplifyBounds returns (one operand, bottom, or 'keep both') denotes exactly the intersection of the two bounds on every atom of the node's kind; validate accepts exactly the atoms of the bound's kind class that compare accordingly; the fast paths agree. One genuine defect (negative zero bound) was found and repaired (fix: commit).",
    "note": "Trusted: go/ssa, the executor, z3, the decimal contract model (validated against real apd on every run). Outside: how conjuncts reach the accumulator (scheduler, references, disjunctions), structs/lists, regexp bounds (=~, !~), coefficients beyond the digit bound, exponents beyond the bound, strings longer than the bound.",
    "technique": "bounded symbolic execution of adt.SimplifyBounds / BoundValue.validate / BinOp from go/ssa over symbolic decimals (mathematical-integer coefficients) and symbolic-byte strings; exactness asserted pointwise for an arbitrary probe atom and decided by z3 (linear integer arithmetic + bit-vectors)",
    "bounds": {
        "quick": "numeric bounds: every pair of ops in {<,<=,>,>=,!=,==}, node kind in {int,float,number}, operands int or float with |coefficient| < 10^3 and exponent in [-1,1], probe |value| < 10^5 with <= 1 decimal place; string/bytes bounds: operands <= 2 bytes, probe <= 3 bytes; validate: atoms null/bool/number/string/bytes within the same bounds",
        "thorough": "coefficients < 10^6, exponents in [-2,2]; strings <= 3 bytes",
    },
    "outside": ["regexp bounds", "insertValueConjunct accumulation (A03.3) and predeclared ranges (A03.4) are not yet encoded", "NaN/Infinity"],
    "assumptions": APD_ASSUMPTIONS,
    "validate": [{"kind": "apdgrid"}],
    "runs": [
        {
            "pkg": "./internal/core/adt",
            "harness": ["adt/common.go", "adt/bounds.go", "adt/validate.go"],
            "apdmodel": True,
            "entries": {
                "quick": [
                    {"name": "verifHarnessSimplifyBoundsNum", "params": {"DIGITS": 3, "EXP": 1}},
                    {"name": "verifHarnessSimplifyBoundsStr", "params": {"STRLEN": 2}},
                    {"name": "verifHarnessBoundValidate", "params": {"DIGITS": 3, "EXP": 1, "STRLEN": 2}},
                    {"name": "verifHarnessBoundValidateInt", "params": {"DIGITS": 3, "EXP": 1}},
                ],
                "thorough": [
                    {"name": "verifHarnessSimplifyBoundsNum", "params": {"DIGITS": 6, "EXP": 2}},
                    {"name": "verifHarnessSimplifyBoundsStr", "params": {"STRLEN": 3}},
                    {"name": "verifHarnessBoundValidate", "params": {"DIGITS": 6, "EXP": 2, "STRLEN": 3}},
                    {"name": "verifHarnessBoundValidateInt", "params": {"DIGITS": 6, "EXP": 2}},
                ],
            },
        },
    ],
}

EVAL_RUN_QUICK = {"name": "verifHarnessUnifyExact", "params": {"DOMAIN": 0, "DIGITS": 1, "EXP": 0, "STRLEN": 1, "NCONJ": 2}}

PROPS["C03"]["runs"].append({
    "pkg": "./internal/core/adt",
    "harness": ["adt/common.go", "adt/validate.go", "adt/unify.go"],
    "apdmodel": True,
    "entries": {
        "quick": [EVAL_RUN_QUICK],
        "thorough": [
            {"name": "verifHarnessUnifyExact", "params": {"DOMAIN": 2, "DIGITS": 1, "EXP": 0, "STRLEN": 1, "NCONJ": 2}},
            {"name": "verifHarnessUnifyExact", "params": {"DOMAIN": 0, "DIGITS": 2, "EXP": 0, "STRLEN": 1, "NCONJ": 2}},
            {"name": "verifHarnessUnifyExact", "params": {"DOMAIN": 1, "DIGITS": 1, "EXP": 0, "STRLEN": 1, "NCONJ": 2}},
        ],
    },
})
PROPS["C03"]["claim"] += " In addition the REAL evaluator (Vertex.Finalize: scheduler, insertValueConjunct, updateNodeType, SimplifyBounds, validateValue) is executed symbolically on every pair of conjuncts drawn from atoms, basic types and bounds plus an arbitrary probe atom: the atom unifies exactly when it satisfies every conjunct, the result is then that atom, bottom arises only when no atom fits, and a pinned number is never a different one."
PROPS["C03"]["bounds"]["quick"] += "; real evaluator: every pair of conjuncts over numbers (int/float, |coefficient| < 10, exponent 0; types int/float/number/top; bounds with the six operators) and an arbitrary probe number"
PROPS["C03"]["bounds"]["thorough"] += "; real evaluator: every pair of conjuncts over null/bool/numbers/strings/bytes (<= 1 byte), all eight basic types, all bounds"
PROPS["C03"]["outside"] = ["regexp bounds", "more than two conjuncts besides the probe (three with duplicate/top)", "predeclared range names (A03.4)", "NaN/Infinity", "how conjuncts arise from references, comprehensions and disjunctions"]

PROPS["C01"] = {
    "level": "model_checking",
    "claim": "Bounded symbolic model checking of order independence on the REAL evaluator (Vertex.Finalize: scheduler, conjunct insertion, insertArc, reference resolution, cycle handling). Scalar fragment: for every pair of conjuncts (atoms, basic types, bounds) and an arbitrary probe atom, unifying them in declaration order, reversed, interleaved with the probe, with a duplicated conjunct and with an extra top gives the same success/failure and the same value; triples of number types and bounds have the same error status in every explored order and fail only if unsatisfiable. Struct fragment: two struct literals (built as ADT) with fields a, b holding symbolic integer atoms, bounds on symbolic integers, int, or references to a sibling field (cycles included), evaluated as S1 & S2, as S2' & S1' with each literal's declarations reversed, and as one literal holding all declarations: the same fields exist, with the same error code, the same kind, and admit the same integers for an arbitrary probe. Plus the order-free kernels (arc-type meet, default-mode combination, symmetry of bound simplification) are commutative, associative and idempotent.",
    "note": "Trusted: go/ssa, the executor, z3, the decimal contract model. Outside: nested structs, optional/required fields, definitions and closedness, embeddings, comprehensions, lists, disjunction order, file order, structure sharing beyond what two flat literals trigger, the compiler (literals are built as ADT).",
    "technique": "bounded symbolic execution of adt.Vertex.Finalize (the real scheduler, conjunct insertion, insertArc, reference resolution) on permuted/duplicated symbolic scalar conjuncts and on permuted struct literals with symbolic integer leaves; outcomes compared by z3",
    "bounds": {
        "quick": "conjunct pairs over strings/bytes (<= 1 byte) with types and bounds, probe <= 2 bytes: orders (c1,c2,p), (p,c2,c1), (c1,p,c2,c1,top); triples int & c2 & c3 with c2,c3 a number type or a bound (< <= > >= !=) on a one-digit int or one-digit half-unit float (d*10^-1), in 3 orders (identity, reversed, rotated); two struct literals over fields a, b with <= 2 and 1 declarations, values: integer in 0..3, bound (< or >=) on such an integer, int, sibling reference; probe in 0..3; two routes into a field: {a: t, t: V | t: u, u: V} & {a: t2, ...} over labels a, b, c; a chain: {c: V1, a: c, b: a, b: V3} & {l: V2}; structure sharing on (production default); arc types: all values; default modes: all values",
        "thorough": "conjunct pairs over the full scalar domain (null, bool, numbers, strings, bytes; all basic types; all bounds); triples with all three conjuncts arbitrary (type or bound) in 3 orders; struct literals with <= 2 declarations each",
    },
    "outside": ["nested structs, lists, comprehensions, disjunction order, closedness, optional/required fields, embeddings, files"],
    "assumptions": APD_ASSUMPTIONS,
    "validate": [{"kind": "apdgrid"}],
    "runs": [
        {
            "pkg": "./internal/core/adt",
            "harness": ["adt/common.go", "adt/order.go"],
            "apdmodel": True,
            "entries": {"quick": ["verifHarnessArcTypeMeet", "verifHarnessDefaultModeAlgebra"], "thorough": ["verifHarnessArcTypeMeet", "verifHarnessDefaultModeAlgebra"]},
        },
        {
            "pkg": "./internal/core/adt",
            "harness": ["adt/common.go", "adt/validate.go", "adt/unify.go"],
            "apdmodel": True,
            "entries": {
                "quick": [{"name": "verifHarnessUnifyExact", "params": {"DOMAIN": 1, "DIGITS": 1, "EXP": 0, "STRLEN": 1, "NCONJ": 2}},
                          {"name": "verifHarnessUnifyOrder3", "params": {"DIGITS": 1, "EXP": 1, "PERMS": 3, "FIRSTINT": 1}}],
                "thorough": [{"name": "verifHarnessUnifyExact", "params": {"DOMAIN": 2, "DIGITS": 1, "EXP": 0, "STRLEN": 1, "NCONJ": 2}},
                             {"name": "verifHarnessUnifyOrder3", "params": {"DIGITS": 1, "EXP": 1, "PERMS": 3}}],
            },
        },
        {
            "pkg": "./internal/core/adt",
            "harness": ["adt/common.go", "adt/disjunct.go", "adt/structs.go"],
            "apdmodel": True,
            "entries": {
                "quick": [{"name": "verifHarnessStructOrder", "params": {"DECLS": 2, "DECLS1": 1, "OPS": 2}},
                          {"name": "verifHarnessStructOrder", "params": {"MODE": 1}},
                          {"name": "verifHarnessStructOrder", "params": {"MODE": 2}}],
                "thorough": [{"name": "verifHarnessStructOrder", "params": {"DECLS": 2, "OPS": 2}},
                             {"name": "verifHarnessStructOrder", "params": {"MODE": 1}},
                             {"name": "verifHarnessStructOrder", "params": {"MODE": 2}}],
            },
        },
    ],
}

PROPS["C02"] = {
    "level": "model_checking",
    "claim": "Bounded totality, decided on the real code. Whole pipeline: every source of at most N bytes goes through cue.Context.CompileBytes (parser, compiler, evaluator), Value.Err, Value.Validate(Concrete), Value.Syntax(Final) + format.Node (CUE export) and Value.MarshalJSON (JSON export) and every stage returns a value or an ordinary error - no panic leaves the API, no index out of range, no nil dereference, no unbounded loop (fuel) on any path; parser alone: ParseFile with and without comments returns a file or an error and declaration positions lie within the source. Units: on every source of the length bound the scanner terminates within 2*len+2 calls, never panics, indexes out of range or dereferences nil; adt.BinOp on every pair of scalar operands and every binary operator returns a scalar or a *Bottom; the real evaluator on every pair of scalar conjuncts returns without panic (implicit assertions of the C01/C03 harnesses). The bound on the source length (3 bytes) is what keeps this claim thin.",
    "note": "Trusted: go/ssa, the executor, z3, the decimal contract model (pipeline and BinOp runs), the executor's models of fmt/strconv/encoding-json for scalars. Outside: sources longer than the bound (so: structs with several fields, references, comprehensions, cycles), division (apd.Context.Quo is not modelled: sources with a '/' outside '//' are skipped), JSON export of non-empty quoted strings, YAML export, the CLI, stack depth, memory, byte-identical repeatability across runs.",
    "technique": "bounded symbolic execution from go/ssa with implicit panic/index/nil/termination assertions on every path: cue.Context.CompileBytes -> Validate -> Syntax/format.Node -> MarshalJSON on symbolic source bytes; parser.ParseFile; scanner.Scan; adt.BinOp; path feasibility decided by z3 and the byte-domain pre-solver",
    "bounds": {
        "quick": "pipeline: every source of <= 3 bytes (48 543 paths); parser: every source of <= 3 bytes with comments; scanner: every source of <= 3 bytes (comments on); BinOp: every operator x every pair of atoms (null, bool, int/float < 10^3 with exponent in [-1,1], string/bytes <= 2 bytes)",
        "thorough": "scanner <= 4 bytes in both modes; parser <= 4 bytes with comments (1 913 674 paths), <= 3 bytes without; BinOp operands < 10^6, strings <= 3 bytes",
    },
    "outside": ["sources > 3 bytes (pipeline, parser), > 4 bytes (scanner)", "division", "YAML export, CLI", "repeatability of output", "resource bounds"],
    "assumptions": APD_ASSUMPTIONS,
    "runs": [
        {
            "pkg": "./cue/scanner",
            "harness": ["scanner/total.go"],
            "entries": {
                "quick": [{"name": "verifHarnessScanTotal", "params": {"N": 3}}],
                "thorough": [{"name": "verifHarnessScanTotal", "params": {"N": 4}}, {"name": "verifHarnessScanTotal", "params": {"N": 4, "MODE": 0}}],
            },
        },
        {
            "pkg": "./internal/core/adt",
            "harness": ["adt/common.go", "adt/validate.go", "adt/total.go"],
            "apdmodel": True,
            "entries": {
                "quick": [{"name": "verifHarnessBinOpTotal", "params": {"DIGITS": 3, "EXP": 1, "STRLEN": 2}}],
                "thorough": [{"name": "verifHarnessBinOpTotal", "params": {"DIGITS": 6, "EXP": 2, "STRLEN": 3}}],
            },
        },
        {
            "pkg": "./cue/parser",
            "harness": ["parser/total.go"],
            "entries": {
                "quick": [{"name": "verifHarnessParseTotal", "params": {"N": 3}}],
                "thorough": [{"name": "verifHarnessParseTotal", "params": {"N": 4}}, {"name": "verifHarnessParseTotal", "params": {"N": 3, "COMMENTS": 0}}],
            },
        },
        {
            "pkg": "./cue",
            "harness": ["cue/pipeline.go"],
            "apdmodel": True,
            "entries": {
                "quick": [{"name": "verifHarnessPipelineTotal", "params": {"N": 3, "STAGE": 3}}],
                "thorough": [{"name": "verifHarnessPipelineTotal", "params": {"N": 3, "STAGE": 3}}],
            },
        },
    ],
}

PROPS["C06"] = {
    "level": "model_checking",
    "claim": "Bounded symbolic model checking of /repo's own arithmetic plumbing over the validated decimal contract model: BinOp + - * give the exact value with the int/float kind the spec prescribes (or an error); IntDiv/IntMod/IntQuo/IntRem satisfy the Euclidean and truncated identities for all sign combinations and reject a zero divisor; the six comparison operators agree with one total order by value (numbers across int/float, strings and bytes bytewise); every spelling the scanner accepts as a number literal within the length bound denotes exactly the value of an independent evaluator of the spec grammar (all bases, separators, exponents, SI/IEC multipliers). A silent-rounding defect of integer arithmetic was found and repaired; float precision (34 digits) and fractional multiplier products are recorded known findings.",
    "note": "Trusted: go/ssa, the executor, z3, the decimal contract model (validated against real apd on every run). Outside: division (/), Pow and pkg/math builtins, number printing and re-reading (apd's formatter), literals longer than the bound, coefficients beyond the stated digits.",
    "technique": "bounded symbolic execution of adt.BinOp/numOp/intDivOp and literal.ParseNum/NumInfo.Decimal/scanner.Scan from go/ssa; operands are decimals with mathematical-integer coefficients (SMT Int); exactness and identities decided by z3",
    "bounds": {
        "quick": "+ - *: int and float operands, |coefficient| < 10^3, exponents in [-1,1]; int*int with coefficients < 10^18 and int+int, int-int with coefficients < 10^35 (results beyond 34 digits); div/mod/quo/rem: |operands| < 10^3 (quick) / 10^4 (thorough; symbolic-by-symbolic multiplication is what limits this); comparisons: same numbers, strings/bytes <= 2 bytes; literals: every byte string of <= 4 bytes, plus 7 long templates (64-bit and 128-bit boundaries in hex/binary/octal/decimal, a 37-digit Ki literal) with 1 arbitrary byte inserted",
        "thorough": "coefficients < 10^6, exponents in [-2,2]; float*float < 10^18 (reaches the recorded precision finding); literals <= 6 bytes",
    },
    "outside": ["/ (Quo) and reduceKeepingFloats", "Pow, pkg/math", "printing and re-reading numbers", "NaN/Infinity"],
    "assumptions": APD_ASSUMPTIONS,
    "validate": [{"kind": "apdgrid"}],
    "runs": [
        {
            "pkg": "./internal/core/adt",
            "harness": ["adt/common.go", "adt/arith.go"],
            "apdmodel": True,
            "entries": {
                "quick": [
                    {"name": "verifHarnessArithExact", "params": {"DIGITS": 3, "EXP": 1}},
                    {"name": "verifHarnessArithExact", "params": {"DIGITS": 18, "EXP": 0, "INTS": 1, "OP": 2}, "timeout": 60000},
                    {"name": "verifHarnessArithExact", "params": {"DIGITS": 35, "EXP": 0, "INTS": 1, "OP": 0}},
                    {"name": "verifHarnessArithExact", "params": {"DIGITS": 35, "EXP": 0, "INTS": 1, "OP": 1}},
                    {"name": "verifHarnessIntDiv", "params": {"DIGITS": 3}, "timeout": 60000},
                    {"name": "verifHarnessCompareOrder", "params": {"DIGITS": 3, "EXP": 1, "STRLEN": 2}},
                ],
                "thorough": [
                    {"name": "verifHarnessArithExact", "params": {"DIGITS": 6, "EXP": 2}},
                    {"name": "verifHarnessArithExact", "params": {"DIGITS": 18, "EXP": 0, "INTS": 1, "OP": 2}, "timeout": 120000},
                    {"name": "verifHarnessArithExact", "params": {"DIGITS": 18, "EXP": 0, "INTS": 0, "OP": 2}, "timeout": 120000},
                    {"name": "verifHarnessArithExact", "params": {"DIGITS": 40, "EXP": 0, "INTS": 1, "OP": 0}},
                    {"name": "verifHarnessArithExact", "params": {"DIGITS": 40, "EXP": 0, "INTS": 1, "OP": 1}},
                    {"name": "verifHarnessIntDiv", "params": {"DIGITS": 4}, "timeout": 120000},
                    {"name": "verifHarnessCompareOrder", "params": {"DIGITS": 6, "EXP": 2, "STRLEN": 3}},
                ],
            },
        },
        {
            "pkg": "./cue/scanner",
            "harness": ["scanner/total.go", "scanner/numvalue.go"],
            "apdmodel": True,
            "entries": {
                "quick": [{"name": "verifHarnessNumLiteralValue", "params": {"N": 4}}] + [{"name": "verifHarnessNumLiteralValue", "params": {"N": 1, "T": t}} for t in range(1, 8)],
                "thorough": [{"name": "verifHarnessNumLiteralValue", "params": {"N": 6}}] + [{"name": "verifHarnessNumLiteralValue", "params": {"N": 2, "T": t}} for t in range(1, 8)],
            },
        },
    ],
}

PROPS["C15"] = {
    "level": "model_checking",
    "claim": "Bounded symbolic model checking of the real name and size checks that guard module archive extraction: every name accepted by module.CheckFilePath and stable under path.Clean is relative, has no empty/./.. element, no backslash, colon, NUL or control byte, and filepath.Join(dir,name) stays below dir; the real modzip.CheckZip loop (zip container parsing stubbed) lists a name as valid only if it passed those checks, never lists two names that are equal, case-equal or file/directory-clashing, confines cue.mod to the root with exact case, rejects cue.mod/local-module.cue, and its size accounting (uint64/int64 bit-vector arithmetic) admits no wrap-around.",
    "note": "Trusted: go/ssa, the executor, z3. Stubs: archive/zip.NewReader returns harness entries (names, sizes, directory flags symbolic). Outside: the zip container format, symlink/irregular entries (CheckZip sees only names and sizes), Unicode case folding beyond ASCII, the byte-copy loop of Unzip and CheckFiles/Create (creator side), real file-system effects.",
    "technique": "bounded symbolic execution of module.CheckFilePath/checkPath/checkElem/fileNameOK, path.Clean, filepath.Join, modzip.CheckZip/collisionChecker.check/strToFold/splitCUEMod from go/ssa; safety predicates and size arithmetic decided by z3",
    "bounds": {
        "quick": "name checks: every byte string of <= 3 bytes; CheckZip: module file + one entry 'template + <= 2 arbitrary ASCII bytes' over 9 templates (cue.mod placements, case variants, local-module.cue); collisions: two names of <= 3 characters over {a,A,/,.} with symbolic letter case, both as file or directory entries, plus the targeted file-vs-path-below-it family; sizes: three entries with arbitrary 64-bit declared sizes",
        "thorough": "name checks <= 4 bytes; templates + <= 3 bytes",
    },
    "outside": ["zip container parsing", "Unzip's copy loop and os effects", "creator side (CheckFiles/Create)", "non-ASCII case folding"],
    "assumptions": ["unicode.IsLetter is an uninterpreted function beyond ASCII (category axioms only)"],
    "runs": [
        {
            "pkg": "./mod/module",
            "harness": ["module/filepath.go"],
            "entries": {
                "quick": [{"name": "verifHarnessFilePathSafe", "params": {"N": 3}}],
                "thorough": [{"name": "verifHarnessFilePathSafe", "params": {"N": 4}}],
            },
        },
        {
            "pkg": "./mod/modzip",
            "harness": ["modzip/checkzip.go"],
            "native_replay": False,  # archive/zip.NewReader is stubbed: counterexamples are confirmed by the engine-concrete replay
            "entries": {
                "quick": [
                    {"name": "verifHarnessCheckZipName", "params": {"N": 2}},
                    {"name": "verifHarnessCheckZipCollisions", "params": {"N": 3, "MODE": 0}},
                    {"name": "verifHarnessCheckZipCollisions", "params": {"N": 3, "MODE": 1}},
                    {"name": "verifHarnessCheckZipCollisions", "params": {"N": 3, "MODE": 2}},
                    "verifHarnessCheckZipSizes",
                ],
                "thorough": [
                    {"name": "verifHarnessCheckZipCollisions", "params": {"N": 3, "MODE": 2}},
                    {"name": "verifHarnessCheckZipName", "params": {"N": 3}},
                    {"name": "verifHarnessCheckZipCollisions", "params": {"N": 3, "MODE": 0}},
                    {"name": "verifHarnessCheckZipCollisions", "params": {"N": 4, "MODE": 1}},
                    "verifHarnessCheckZipSizes",
                ],
            },
        },
    ],
}

PROPS["C18"] = {
    "level": "model_checking",
    "claim": "Bounded model checking of the REAL workflow controller executed from go/ssa: flow.New (task discovery, dependency discovery through references, cycle check) and Controller.Run (runLoop, markReady, isReady, updateTaskValue/updateTaskResults/updateValue with the real CUE evaluator) on workflows generated from every dependency relation over N tasks, with every completion order of the task goroutines and every pattern of task failures explored as choices: each task runs at most once, only after everything it references completed successfully and with those results visible in its value; all tasks run when none fails; a failure is reported and nothing depending on the failed task starts; a dependency cycle is an error and no task on it starts.",
    "note": "Trusted: go/ssa, the executor and its cooperative goroutine/channel model (a goroutine runs to completion when the controller blocks on its select; which one is an explored choice - exact for the controller's goroutines, whose only interaction is the final send on taskCh), context never cancelled, CUE_EXPERIMENT/CUE_DEBUG unset. Counterexamples of this check are replayed in the executor with all choices fixed (native replay cannot force a goroutine schedule). Outside: cancellation, services/deferred tasks, UpdateFunc, tasks appearing during the run, data races.",
    "technique": "exhaustive symbolic-execution exploration of schedule, outcome and relation choice variables over the real tools/flow code and the real evaluator (CUE source generated per path, parsed, compiled and evaluated inside the executor)",
    "bounds": {
        "quick": "N = 3 tasks: every acyclic reference relation (task j may reference any i < j) x every failure pattern x every completion order; every relation with cycles over 3 tasks (64 relations; a cycle must be detected by flow.New and then nothing runs); one workflow with a task generated during the run by a comprehension, both completion orders",
        "thorough": "N = 4 tasks (64 acyclic relations x 16 failure patterns x all orders; 4096 arbitrary relations)",
    },
    "outside": ["context cancellation", "services, deferred and inferred tasks", "UpdateFunc", "real goroutine preemption / data races", "tasks appearing during the run beyond the one late-task template"],
    "assumptions": ["context.WithCancel/Background replaced by a never-cancelled context", "task results are written to Task.update directly (Task.Fill's Go-value conversion uses reflection)"],
    "runs": [
        {
            "pkg": "./tools/flow",
            "harness": ["flow/run.go"],
            "apdmodel": True,
            "native_replay": False,
            "fuel": 50000000,
            "entries": {
                "quick": [
                    {"name": "verifHarnessFlowAcyclic", "params": {"N": 3}},
                    {"name": "verifHarnessFlowCycles", "params": {"N": 3}},
                    "verifHarnessFlowLateTask",
                ],
                "thorough": [
                    {"name": "verifHarnessFlowAcyclic", "params": {"N": 4}},
                    {"name": "verifHarnessFlowCycles", "params": {"N": 4}},
                    "verifHarnessFlowLateTask",
                ],
            },
        },
    ],
}

PROPS["C04"] = {
    "level": "model_checking",
    "claim": "Bounded symbolic model checking of the REAL evaluator's disjunction machinery (scheduleDisjunction, crossProduct, doDisjunct with overlay cloning, appendDisjunct duplicate elimination, finalizeDisjunctions, Vertex.Default) against the spec's value/default-pair algebra: for every tuple of flat disjunctions of integer atoms with arbitrary default marks, unified with &, the set of atoms the result accepts is the intersection of the disjunctions' atom sets; the defaults the evaluator reports are exactly the set given by M0-M3, D0-D2, U0-U2 including the rule that a marked disjunction all of whose marked disjuncts are eliminated counts as unmarked; Default() resolves to an atom exactly when the pair has a unique default (or no default and a unique value) and then to that atom; ambiguity is never resolved silently; bottom arises only when no atom is common. Atoms are symbolic integers in 0..3, so which disjuncts coincide or conflict is decided by the solver. For unmarked disjunctions whose disjuncts are atoms or numeric bounds (< <= > >= on a symbolic integer), the result admits an arbitrary integer probe exactly when every disjunction has a disjunct admitting it (no disjunct is lost to de-duplication), and it resolves to a concrete value only if that is the only member.",
    "note": "Trusted: go/ssa, the executor, z3, the decimal contract model. Outside: nested marked disjunctions (excluded by the property), struct disjuncts, disjuncts that are types, marked bound disjuncts, priorities/layers, cycles, disjunctions reached through references.",
    "technique": "bounded symbolic execution of adt.Vertex.Finalize / Vertex.Default on DisjunctionExpr conjuncts with symbolic integer atoms (SMT Int) and enumerated marks; pointwise comparison with the spec oracle for an arbitrary probe atom, decided by z3",
    "bounds": {
        "quick": "2 disjunctions, the first of <= 3 and the second of <= 2 atoms, atoms arbitrary in 0..3, every marking; 2 unmarked disjunctions of <= 2 terms each, a term an atom or a bound (< or >) on an integer in 0..3, probe in 0..3",
        "thorough": "2 disjunctions of <= 3 atoms; 3 disjunctions of <= 2 atoms; bound terms with < <= > >=; bound terms (< >) together with the conjunct int",
    },
    "outside": ["nested marked disjunctions", "struct/type disjuncts, marked bound disjuncts", "layers and priorities"],
    "assumptions": APD_ASSUMPTIONS,
    "runs": [
        {
            "pkg": "./internal/core/adt",
            "harness": ["adt/common.go", "adt/disjunct.go"],
            "apdmodel": True,
            "entries": {
                "quick": [{"name": "verifHarnessDisjunctionDefaults", "params": {"TERMS": 2, "NDISJ": 2, "TERMS0": 3}},
                          {"name": "verifHarnessDisjunctionBounds", "params": {"TERMS": 2, "NDISJ": 2, "OPSET": 1}}],
                "thorough": [
                    {"name": "verifHarnessDisjunctionDefaults", "params": {"TERMS": 3, "NDISJ": 2}},
                    {"name": "verifHarnessDisjunctionDefaults", "params": {"TERMS": 2, "NDISJ": 3}},
                    {"name": "verifHarnessDisjunctionBounds", "params": {"TERMS": 2, "NDISJ": 2}},
                    {"name": "verifHarnessDisjunctionBounds", "params": {"TERMS": 2, "NDISJ": 2, "OPSET": 1, "WITHINT": 1}},
                ],
            },
        },
    ],
}

PROPS["C05"] = {
    "level": "model_checking",
    "claim": "Bounded symbolic model checking of (1) the REAL evaluator's closedness bookkeeping (closeContext/reqSets, checkTypos, insertArc, pattern constraints, ellipsis, embeddings) on programs `#S1: s1, #S2: s2, x: L & R & data` built as the ADT the compiler emits, with L one of #S1 / the open literal s1 / the embedding {#S1, c: 1}, R one of #S2 / the open literal s2, schemas from { a: <k | a?: <k | a!: <k, b?: int, [string]: int, ... } and data a subset of {a: n, b: 1, c: 1} with k, n symbolic integers: Vertex.Err on x is non-nil exactly when some field present in the result (from the data, a regular or required schema field, or next to the embedding) is not admitted by some closed conjunct (named field, pattern, ellipsis; the embedding widens its enclosing literal) or n violates a declared bound, and on success the data field keeps its value; open literals never reject a field and optional constraints on absent fields never fail; (2) the periphery: adt.matchPattern/matchPatternValue on every pattern tree of depth <= 2 over top, basic types, string and number bounds, exact strings and ints, & and |, and a symbolic regular label (string or int) agrees with 'the label read as an atom satisfies the pattern' under the C03 oracle; hidden, definition and let labels never match; allowedInClosed is exactly hidden/definition/let on all 2^32 features; MakeLabel/Index/Typ round-trip and reject out-of-range indices.",
    "note": "Trusted: go/ssa, the executor, z3, the decimal contract model. Outside: close() (builtin machinery), definitions closing recursively below the first level, 'every required field is present' (reported by Validate, not by unification), hidden/definition fields inside the data, regexp patterns, schemas reached through the compiler rather than built as ADT.",
    "technique": "bounded symbolic execution of adt.Vertex.Finalize (closedness: typocheck.go, closed.go, fields.go, constraints.go) on ADT programs with enumerated shape and symbolic integer bounds/values, outcome compared with a membership oracle by z3; bounded symbolic execution of adt.matchPattern / matchPatternValue / BoundValue.validateStr / validateInt / Feature helpers from go/ssa with symbolic label strings and indices; agreement with the oracle decided by z3",
    "bounds": {
        "quick": "closedness: schemas over a (absent/regular/optional/required with bound <k), pattern, ellipsis; second schema always a definition, possibly a second reference to the first one (#S1 twice); data subsets of {a: n, c: 1}; k, n arbitrary in 0..3; pattern trees of depth <= 2 with string operands <= 1 byte and int operands < 10; labels: strings <= 2 bytes or int indices < 10; all 32-bit features",
        "thorough": "closedness: both schemas open or definition, with b?: int and data b as well; string operands <= 2 bytes, labels <= 3 bytes",
    },
    "outside": ["close()", "nested (recursive) closedness", "required-field presence (Validate)", "regexp patterns", "compiler front end"],
    "assumptions": APD_ASSUMPTIONS,
    "runs": [
        {
            "pkg": "./internal/core/adt",
            "harness": ["adt/common.go", "adt/validate.go", "adt/unify.go", "adt/pattern.go"],
            "apdmodel": True,
            "timeout": 90000,
            "entries": {
                "quick": [{"name": "verifHarnessMatchPattern", "params": {"STRLEN": 1}}, "verifHarnessFeatureClasses"],
                "thorough": [{"name": "verifHarnessMatchPattern", "params": {"STRLEN": 2}}, "verifHarnessFeatureClasses"],
            },
        },
        {
            "pkg": "./internal/core/adt",
            "harness": ["adt/common.go", "adt/disjunct.go", "adt/closed.go"],
            "apdmodel": True,
            "entries": {
                "quick": [{"name": "verifHarnessClosedStruct", "params": {"B": 0, "S2DEF": 1, "SAME": 1}}],
                "thorough": [{"name": "verifHarnessClosedStruct", "params": {"B": 1, "S2DEF": 0}},
                             {"name": "verifHarnessClosedStruct", "params": {"B": 0, "S2DEF": 1, "SAME": 1}}],
            },
        },
    ],
}

PROPS["C07"] = {
    "level": "model_checking",
    "claim": "Bounded symbolic model checking of the value-preserving rewrites the CUE exporter applies: the compact int/uint + tightest-bounds form produced by boundSimplifier.add/expr denotes exactly the intersection of the conjuncts it reports as used, for an arbitrary probe number; a conjunction is printed as a predeclared range name (adt.MatchBuiltinRange) only if it denotes exactly that name's interval, every sized integer type expands (compile.LookupRange) to the spec's interval and is matched back to its own name; a string label printed through ast.NewStringLabel reads back (ast.LabelName) as the same field name, quoted exactly when it is not a plain regular identifier.",
    "note": "Trusted: go/ssa, the executor, z3, the decimal contract model; exporter.expr for a bound leaf is stubbed by an opaque literal naming the bound. Outside: value.go/expr.go/adt.go/self.go (struct, reference, let, import printing), option profiles, the formatter, number formatting - i.e. 'the printed text parses and evaluates to the same value' as a whole is not claimed.",
    "technique": "bounded symbolic execution of export.boundSimplifier, adt.MatchBuiltinRange, compile.LookupRange/mkIntRange, ast.NewStringLabel/LabelName from go/ssa; denotational equality for an arbitrary probe decided by z3",
    "bounds": {
        "quick": "bound simplifier: every sequence of 2 conjuncts from {int type, bound with op in < <= > >= != on an int or float operand, |coefficient| < 100, exponent in [-1,1]}, plus every such sequence with the int type added first or last (INT=1); ranges: all 10 sized integer types and all perturbations of their bounds by -2..2 with/without the int type; labels: valid UTF-8 strings <= 3 bytes",
        "thorough": "3 conjuncts; labels <= 4 bytes",
    },
    "outside": ["struct/reference/let/import printing", "formatter", "number text"],
    "assumptions": APD_ASSUMPTIONS,
    "validate": [{"kind": "apdgrid"}],
    "runs": [
        {
            "pkg": "./internal/core/export",
            "harness": ["export/bounds.go"],
            "native_replay": False,  # exporter.expr is stubbed: counterexamples are confirmed by the engine-concrete replay
            "apdmodel": True,
            "entries": {
                "quick": [{"name": "verifHarnessBoundSimplifier", "params": {"DIGITS": 2, "EXP": 1, "K": 2}},
                          {"name": "verifHarnessBoundSimplifier", "params": {"DIGITS": 2, "EXP": 1, "K": 2, "INT": 1}}],
                "thorough": [{"name": "verifHarnessBoundSimplifier", "params": {"DIGITS": 2, "EXP": 1, "K": 3}},
                             {"name": "verifHarnessBoundSimplifier", "params": {"DIGITS": 2, "EXP": 1, "K": 3, "INT": 1}}],
            },
        },
        {
            "pkg": "./internal/core/compile",
            "harness": ["compile/ranges.go"],
            "apdmodel": True,
            "entries": {"quick": ["verifHarnessPredeclaredRanges"], "thorough": ["verifHarnessPredeclaredRanges"]},
        },
        {
            "pkg": "./cue/ast",
            "harness": ["ast/label.go"],
            "entries": {
                "quick": [{"name": "verifHarnessLabelRoundTrip", "params": {"N": 3}}],
                "thorough": [{"name": "verifHarnessLabelRoundTrip", "params": {"N": 4}}],
            },
        },
    ],
}

PROPS["C16"] = {
    "level": "model_checking",
    "claim": "Bounded model checking of the REAL module-cache fetch protocol (Cache.Fetch, downloadDir, downloadZip, downloadZip1, cachePath, lockVersion, tempFile, downloadDirPartialError.Is, module.EscapePath/EscapeVersion) executed from go/ssa over a file-system model: from every pre-state satisfying the invariant Inv (a directory without the .partial marker is complete; a zip at its final name is complete), for every crash point (the process stops after the k-th file-system effect, k = 0..20) and every single injected I/O or registry fault, the state at the stopping point satisfies Inv again - so Inv holds after any number of interrupted fetches; Fetch and the cache-only reader report success only for a complete, unmarked directory; from every valid state an uninterrupted fault-free Fetch succeeds; the zip reaches its final name only by renaming a fully written, closed temp file; the lock is never re-entered and always released; a lock-free reader whose two stats straddle the writer never observes partial content.",
    "note": "Trusted: go/ssa, the executor, and the file-system model of harness/modcache/fetch.go (single operations atomic; Rename atomic; the lock excludes other writers; the registry delivers the complete body or an error; modzip.Unzip is modelled as 'create dir, write n files one effect at a time' - its own loop is under C15). Counterexamples are replayed in the executor with all choices fixed (the environment is a model, so there is no native replay). par.ErrCache.Do is modelled as a direct call. Outside: lock-file correctness, in-process single flight under real goroutines, GetZip call counts across processes, permissions, Windows retry semantics. Observation (not claimed as a finding, not replayable natively): when an extraction fails with an I/O error, the cleanup removes the directory and then the marker; a lock-free reader that saw the directory before and the missing marker after gets a path to a directory that no longer exists.",
    "technique": "exhaustive symbolic-execution exploration of pre-state, crash-point and fault choice variables over the real mod/modcache code with os/robustio/lockedfile/registry calls redirected to a file-system model; invariant and post-conditions asserted on the model state",
    "bounds": {
        "quick": "one module version; module zip of 2 files; every pre-state of (zip, stale temp file, stale temp dir, extraction dir with -1..2 files, marker) satisfying Inv; crash after effect k for k in 0..20 or one fault at effect k in 0..20 with/without registry failure",
        "thorough": "same (the space is explored exhaustively already)",
    },
    "outside": ["real file systems and processes", "lockedfile correctness", "concurrent in-process fetches", "modfile cache path (fetchModFileData)"],
    "assumptions": ["file-system model as described in level_note", "math/rand/v2.IntN returns 0 (temp file name)"],
    "runs": [
        {
            "pkg": "./mod/modcache",
            "harness": ["modcache/fetch.go"],
            "native_replay": False,
            "entries": {
                "quick": [{"name": "verifHarnessFetchCrashSafety", "params": {"EFFECTS": 20}}],
                "thorough": [{"name": "verifHarnessFetchCrashSafety", "params": {"EFFECTS": 24}}],
            },
        },
    ],
}


PROPS["C08"] = {
    "level": "model_checking",
    "claim": "Bounded symbolic model checking of the real formatter as configured by default (format.Source: parser, then - the formatv2 experiment being on by default at this language version - the internal/pretty document printer and its renderer; the legacy printer in cue/format/node.go and printer.go is not on this path and is not executed) on every source of at most 3 bytes: whenever the source parses, formatting succeeds, the output parses, the output's syntax tree equals the input's (same nodes in the same shape; identifiers, string literals, operators, field constraints, attributes equal; number literals equal by kind and value; the same comment groups with the same text, doc/line flags and position index on the same nodes), and formatting the output again returns it byte for byte. This is a thin claim: sources this short contain few layout decisions.",
    "note": "Trusted: go/ssa, the executor, z3, the decimal contract model (only to compare number literals by value). Outside: sources longer than 3 bytes - so multi-field structs, blank-line and comment placement, alignment sections, the -s simplifications, import sorting, cmd/cue fmt itself; the legacy printer (CUE_EXPERIMENT=formatv2=0).",
    "technique": "bounded symbolic execution of format.Source (internal/pretty) and parser.ParseFile from go/ssa on symbolic source bytes; syntax trees compared node by node, output compared byte by byte, decided by z3 and the byte-domain pre-solver",
    "bounds": {
        "quick": "every byte string of length <= 3 (51 976 paths, 3 208 of them parse)",
        "thorough": "the same",
    },
    "outside": ["sources > 3 bytes", "legacy (v1) printer", "format.Simplify and other options", "import handling", "cue fmt command (file handling, --check, --diff)"],
    "assumptions": APD_ASSUMPTIONS,
    "runs": [
        {
            "pkg": "./cue/format",
            "harness": ["format/idem.go"],
            "apdmodel": True,
            "entries": {
                "quick": [{"name": "verifHarnessFormatIdempotent", "params": {"N": 3}}],
                "thorough": [{"name": "verifHarnessFormatIdempotent", "params": {"N": 3}}],
            },
        },
    ],
}
