#!/bin/sh
# Build the symbolic executor offline from files on disk only.
set -e
cd "$(dirname "$0")"
export GOFLAGS=-mod=mod GOPROXY=off
unset GOSUMDB
mkdir -p bin evidence
cp /repo/go.sum engine/go.sum 2>/dev/null || true
(cd engine && go build -o ../bin/symgo .)
./bin/symgo -h >/dev/null 2>&1 || true
z3 --version
echo "setup ok"
